package rules

import (
	"fmt"
	"go/token"
	"go/types"
	"os"
	"sort"
	"strings"

	"golang.org/x/tools/go/packages"
	"golang.org/x/tools/go/ssa"
	"golang.org/x/tools/go/ssa/ssautil"

	"verif/internal/core"
)

// checkMutexFields: for every struct type of the given packages that carries a
// sync.Mutex / sync.RWMutex (named or embedded), the fields that its methods
// write after construction are touched by its methods only after the mutex was
// locked (with the unlock deferred or on every path), unless the method is
// itself only called from such locked regions.
func checkMutexFields(c *core.Ctx, l *core.Ledger, rule string, rels []string) {
	isMutex := func(t types.Type) bool {
		s := core.TypeLabel(t)
		return s == "sync.Mutex" || s == "sync.RWMutex" || s == "*sync.Mutex" || s == "*sync.RWMutex"
	}
	isAtomic := func(t types.Type) bool {
		s := core.TypeLabel(t)
		return strings.Contains(s, "atomic.")
	}
	n := 0
	for _, rel := range rels {
		p := c.Pkg(rel)
		if p == nil {
			continue
		}
		names := p.Types.Scope().Names()
		sort.Strings(names)
		for _, name := range names {
			tn, ok := p.Types.Scope().Lookup(name).(*types.TypeName)
			if !ok {
				continue
			}
			named, ok := tn.Type().(*types.Named)
			if !ok {
				continue
			}
			st, ok := named.Underlying().(*types.Struct)
			if !ok {
				continue
			}
			if c.IsTestFile(tn.Pos()) {
				continue
			}
			mu := -1
			for i := 0; i < st.NumFields(); i++ {
				if isMutex(st.Field(i).Type()) {
					mu = i
				}
			}
			if mu < 0 {
				continue
			}
			// methods of *T
			var methods []*ssa.Function
			ms := types.NewMethodSet(types.NewPointer(named))
			for i := 0; i < ms.Len(); i++ {
				if fn, ok := ms.At(i).Obj().(*types.Func); ok && fn.Pkg() == p.Types {
					if f := c.SSAFunc(fn); f != nil && len(f.Blocks) > 0 && f.Synthetic == "" {
						methods = append(methods, f)
					}
				}
			}
			if len(methods) == 0 {
				continue
			}
			for _, v := range mutexTypeProblems(st, mu, methods, c.StaticCallSites, c.Rel, isAtomic) {
				n++
				l.Check(len(v.why) == 0, rule, core.SSAName(v.f), c.Rel(v.f.Pos()), v.detail, strings.Join(v.why, "; "))
			}
		}
	}
	l.Units["mutex_guarded_methods"] = n
	l.Witness(rule, mutexWitness(isMutex, isAtomic), "the matcher must flag badSet.has (and only it) in testdata/witness/mutexfields")
}

type mutexVerdict struct {
	f      *ssa.Function
	detail string
	why    []string
}

// mutexTypeProblems analyses one mutex-carrying struct type.
func mutexTypeProblems(st *types.Struct, mu int, methods []*ssa.Function, callSites func(*ssa.Function) []ssa.CallInstruction, rel func(token.Pos) string, isAtomic func(types.Type) bool) []mutexVerdict {
	var out []mutexVerdict
	recvField := func(f *ssa.Function, v ssa.Value) (int, bool) {
		fa, ok := v.(*ssa.FieldAddr)
		if !ok || len(f.Params) == 0 || fa.X != ssa.Value(f.Params[0]) {
			return 0, false
		}
		return fa.Field, true
	}
	// guarded fields: written by a method
	guarded := map[int]bool{}
	for _, f := range methods {
		core.Instrs(f, func(in ssa.Instruction) {
			switch x := in.(type) {
			case *ssa.Store:
				if k, ok := recvField(f, x.Addr); ok && k != mu && !isAtomic(st.Field(k).Type()) {
					guarded[k] = true
				}
			case *ssa.MapUpdate:
				if ld, ok := x.Map.(*ssa.UnOp); ok {
					if k, ok := recvField(f, ld.X); ok {
						guarded[k] = true
					}
				}
			}
		})
	}
	if len(guarded) == 0 {
		return nil
	}
	// lock calls on the receiver's mutex
	isLockOn := func(f *ssa.Function, in ssa.Instruction, names ...string) bool {
		call, ok := in.(ssa.CallInstruction)
		if !ok {
			return false
		}
		o := core.CalleeObj(call)
		if o == nil || o.Pkg() == nil || o.Pkg().Path() != "sync" {
			return false
		}
		okName := false
		for _, nm := range names {
			if o.Name() == nm {
				okName = true
			}
		}
		if !okName || len(call.Common().Args) == 0 {
			return false
		}
		k, ok := recvField(f, call.Common().Args[0])
		return ok && k == mu
	}
	// which methods are only called with the lock held
	lockedOnly := map[*ssa.Function]bool{}
	for _, f := range methods {
		sites := callSites(f)
		if len(sites) == 0 {
			continue
		}
		all := true
		for _, cs := range sites {
			caller := cs.Parent()
			isM := false
			for _, m2 := range methods {
				if m2 == caller {
					isM = true
				}
			}
			if !isM {
				all = false
				continue
			}
			if found, _ := core.PathFromEntryAvoiding(caller, func(in ssa.Instruction) bool { return isLockOn(caller, in, "Lock", "RLock") }, func(in ssa.Instruction) bool { return in == ssa.Instruction(cs) }); found {
				all = false
			}
		}
		lockedOnly[f] = all
	}
	for _, f := range methods {
		var why []string
		touches := false
		core.Instrs(f, func(in ssa.Instruction) {
			fa, ok := in.(*ssa.FieldAddr)
			if !ok {
				return
			}
			k, ok := recvField(f, fa)
			if !ok || !guarded[k] {
				return
			}
			touches = true
			if lockedOnly[f] {
				return
			}
			if found, _ := core.PathFromEntryAvoiding(f, func(i2 ssa.Instruction) bool { return isLockOn(f, i2, "Lock", "RLock") }, func(i2 ssa.Instruction) bool { return i2 == in }); found {
				why = append(why, fmt.Sprintf("field %s is accessed at %s without the mutex held", st.Field(k).Name(), rel(in.Pos())))
			}
			// ... and not after an explicit unlock
			core.Instrs(f, func(u ssa.Instruction) {
				if _, isD := u.(*ssa.Defer); isD || !isLockOn(f, u, "Unlock", "RUnlock") {
					return
				}
				if found, _ := core.PathAvoiding(u, func(i2 ssa.Instruction) bool { return isLockOn(f, i2, "Lock", "RLock") }, func(i2 ssa.Instruction) bool { return i2 == in }); found {
					why = append(why, fmt.Sprintf("field %s is accessed at %s after the mutex was released", st.Field(k).Name(), rel(in.Pos())))
				}
			})
		})
		if !touches {
			continue
		}
		if !lockedOnly[f] && len(why) == 0 {
			// the unlock is deferred, or passed on every path from the lock to a return
			deferred := false
			var lock ssa.Instruction
			core.Instrs(f, func(in ssa.Instruction) {
				if _, isD := in.(*ssa.Defer); isD && isLockOn(f, in, "Unlock", "RUnlock") {
					deferred = true
				}
				if _, isD := in.(*ssa.Defer); !isD && lock == nil && isLockOn(f, in, "Lock", "RLock") {
					lock = in
				}
			})
			if !deferred && lock != nil {
				if leak, _ := core.PathToExitAvoiding(lock, func(in ssa.Instruction) bool { return isLockOn(f, in, "Unlock", "RUnlock") }, false); leak {
					why = append(why, "a path returns with the mutex still held")
				}
			}
		}
		var gs []string
		for k := range guarded {
			gs = append(gs, st.Field(k).Name())
		}
		sort.Strings(gs)
		detail := "accesses the fields its methods write (" + strings.Join(gs, ", ") + ") only under the struct's mutex"
		if lockedOnly[f] {
			detail = "only called from methods of the type that already hold the mutex"
		}
		out = append(out, mutexVerdict{f, detail, uniq(why)})
	}
	return out
}

func mutexWitness(isMutex, isAtomic func(types.Type) bool) bool {
	cfg := &packages.Config{Mode: packages.LoadAllSyntax, Dir: witnessDir(), Env: append(os.Environ(), "GOWORK=off", "GOFLAGS=-mod=mod", "GOPROXY=off")}
	pkgs, err := packages.Load(cfg, "./testdata/witness/mutexfields")
	if err != nil || len(pkgs) != 1 || len(pkgs[0].Errors) != 0 {
		return false
	}
	prog, sp := ssautil.AllPackages(pkgs, 0)
	prog.Build()
	sites := func(fn *ssa.Function) []ssa.CallInstruction {
		var out []ssa.CallInstruction
		for _, m := range sp[0].Members {
			tm, ok := m.(*ssa.Type)
			if !ok {
				continue
			}
			ms := prog.MethodSets.MethodSet(types.NewPointer(tm.Type()))
			for i := 0; i < ms.Len(); i++ {
				g := prog.MethodValue(ms.At(i))
				if g == nil {
					continue
				}
				core.Instrs(g, func(in ssa.Instruction) {
					if call, ok := in.(ssa.CallInstruction); ok && call.Common().StaticCallee() == fn {
						out = append(out, call)
					}
				})
			}
		}
		return out
	}
	verdict := map[string]bool{}
	for _, m := range sp[0].Members {
		tm, ok := m.(*ssa.Type)
		if !ok {
			continue
		}
		st, ok := tm.Type().Underlying().(*types.Struct)
		if !ok {
			continue
		}
		mu := -1
		for i := 0; i < st.NumFields(); i++ {
			if isMutex(st.Field(i).Type()) {
				mu = i
			}
		}
		if mu < 0 {
			continue
		}
		var methods []*ssa.Function
		ms := prog.MethodSets.MethodSet(types.NewPointer(tm.Type()))
		for i := 0; i < ms.Len(); i++ {
			if g := prog.MethodValue(ms.At(i)); g != nil && len(g.Blocks) > 0 && g.Synthetic == "" {
				methods = append(methods, g)
			}
		}
		for _, v := range mutexTypeProblems(st, mu, methods, sites, func(p token.Pos) string { return prog.Fset.Position(p).String() }, isAtomic) {
			verdict[tm.Name()+"."+v.f.Name()] = len(v.why) == 0
		}
	}
	if os.Getenv("VDEBUG") != "" {
		fmt.Fprintln(os.Stderr, "mutex witness:", verdict)
	}
	return len(verdict) == 4 && !verdict["badSet.has"] && verdict["badSet.add"] && verdict["goodSet.put"] && verdict["goodSet.has"]
}
