package rules

import (
	"fmt"
	"go/token"
	"strings"

	"golang.org/x/tools/go/ssa"

	"verif/internal/core"
)

// checkNilRoot: while a module is being linked the root of a typedef is not
// known yet for typedefs that form a cycle — RootTypeSpec answers nil for
// them until the cycle pass (which runs after every Link) rejects the
// module. Every use of a RootTypeSpec result inside package compile must
// therefore tolerate nil: a comma-ok assertion, a type switch or a
// comparison does; calling a method on it or asserting its type without
// the ok form panics. Such uses are accepted only behind a nil test of
// the same value.
func checkNilRoot(c *core.Ctx, l *core.Ledger, rule string) {
	root := c.SSAFunc(c.LookupFunc("compile", "RootTypeSpec"))
	if root == nil {
		l.Unk(rule, "anchor", "", "compile.RootTypeSpec not found")
		return
	}
	n := 0
	perFn := map[*ssa.Function]int{}
	for _, f := range c.AllFuncs() {
		if core.PkgRel(f) != "compile" || c.IsTestFile(f.Pos()) || f == root {
			continue
		}
		core.Instrs(f, func(in ssa.Instruction) {
			call, ok := in.(*ssa.Call)
			if !ok || call.Call.StaticCallee() != root {
				return
			}
			n++
			// values that carry the result
			carry := map[ssa.Value]bool{call: true}
			work := []ssa.Value{call}
			var bad []string
			for len(work) > 0 {
				v := work[0]
				work = work[1:]
				refs := v.Referrers()
				if refs == nil {
					continue
				}
				for _, r := range *refs {
					unsafe := ""
					switch x := r.(type) {
					case *ssa.Phi:
						if !carry[x] {
							carry[x] = true
							work = append(work, x)
						}
					case *ssa.ChangeInterface:
						if !carry[x] {
							carry[x] = true
							work = append(work, x)
						}
					case *ssa.TypeAssert:
						if !x.CommaOk {
							unsafe = "asserted without the ok form"
						}
					case ssa.CallInstruction:
						if x.Common().IsInvoke() && x.Common().Value == v {
							unsafe = "method " + x.Common().Method.Name() + " called on it"
						}
					}
					if unsafe == "" {
						continue
					}
					// guarded by a nil test of a carrying value?
					edges := core.GuardEdges(f, func(cm core.Cmp) bool {
						if cm.Op != token.NEQ {
							return false
						}
						k, isK := cm.Y.(*ssa.Const)
						return isK && k.IsNil() && carry[cm.X]
					})
					if len(edges) > 0 && core.AllPathsThroughEdges(f, r.Block(), edges) {
						continue
					}
					bad = append(bad, unsafe+" at "+c.Rel(r.Pos()))
				}
			}
			perFn[f]++
			key := fmt.Sprintf("%s:root#%d", core.SSAName(f), perFn[f])
			l.Check(len(bad) == 0, rule, key, c.Rel(call.Pos()), "the result (nil for a typedef in a cycle, until the cycle pass) is only compared, switched on or asserted with the ok form", "the root of a typedef is nil while a cyclic typedef is being linked: "+strings.Join(bad, "; "))
		})
	}
	l.Floor(rule, 8)
}
