package rules

import (
	"fmt"
	"go/token"
	"go/types"
	"strings"

	"golang.org/x/tools/go/ssa"

	"verif/internal/core"
)

// checkPairOrder (PAIR-ORDER): a map or key-value-slice description carries
// its key description in TypePair.Left and its value description in
// TypePair.Right. Producer (gen buildType) and consumer (plugin FormatType)
// agree with the generated code only if
//   - buildType stores into Left what it built from the KeySpec and into
//     Right what it built from the ValueSpec (a set stores its element as
//     Left), and
//   - every Go type FormatType composes from a pair mentions the formatted
//     Left before the formatted Right and each at most once ([Left] alone is
//     the slice form of a set).
func checkPairOrder(c *core.Ctx, l *core.Ledger, rule string) {
	// ---- consumer
	ft := c.SSAFunc(c.LookupFunc("plugin", "goFileGenerator.FormatType"))
	if ft == nil {
		l.Unk(rule, "FormatType", "", "plugin.goFileGenerator.FormatType not found")
	} else {
		// sideOf: v is the formatted text of <pair>.Left / <pair>.Right
		var sideOf func(v ssa.Value, d int) string
		sideOf = func(v ssa.Value, d int) string {
			if d > 6 {
				return ""
			}
			switch x := v.(type) {
			case *ssa.MakeInterface:
				return sideOf(x.X, d+1)
			case *ssa.ChangeType:
				return sideOf(x.X, d+1)
			case *ssa.Extract:
				if x.Index == 0 {
					return sideOf(x.Tuple, d+1)
				}
			case *ssa.Call:
				if x.Call.StaticCallee() != ft || len(x.Call.Args) == 0 {
					return ""
				}
				a := x.Call.Args[len(x.Call.Args)-1]
				fld, base := core.LoadedField(a)
				if fld == nil || (fld.Name() != "Left" && fld.Name() != "Right") {
					return ""
				}
				pf, _ := core.LoadedField(base)
				if pf == nil {
					return "?." + fld.Name()
				}
				return pf.Name() + "." + fld.Name()
			}
			return ""
		}
		// operands of a composition in textual order
		var flatten func(v ssa.Value, d int) []ssa.Value
		flatten = func(v ssa.Value, d int) []ssa.Value {
			if bo, ok := v.(*ssa.BinOp); ok && bo.Op == token.ADD && d < 12 {
				return append(flatten(bo.X, d+1), flatten(bo.Y, d+1)...)
			}
			return []ssa.Value{v}
		}
		n := 0
		check := func(pos token.Pos, ops []ssa.Value) {
			var sides []string
			for _, o := range ops {
				if s := sideOf(o, 0); s != "" {
					sides = append(sides, s)
				}
			}
			if len(sides) == 0 {
				return
			}
			n++
			pair := strings.SplitN(sides[0], ".", 2)[0]
			ok := (len(sides) == 1 && sides[0] == pair+".Left") || (len(sides) == 2 && sides[0] == pair+".Left" && sides[1] == pair+".Right")
			l.Check(ok, rule, fmt.Sprintf("plugin:compose#%d(%s)", n, pair), c.Rel(pos), "key text from Left, value text from Right", "a Go type is composed from "+strings.Join(sides, ", ")+": the key position must hold the formatted Left and the value position the formatted Right")
		}
		for _, host := range c.AllFuncs("plugin") {
			if c.IsTestFile(host.Pos()) || core.IsGenerated2(c, host) {
				continue
			}
			host := host
			core.Instrs(host, func(in ssa.Instruction) {
				switch x := in.(type) {
				case *ssa.Call:
					o := core.CalleeObj(x)
					if o == nil || o.Pkg() == nil || o.Pkg().Path() != "fmt" || !strings.HasPrefix(o.Name(), "Sprint") {
						return
					}
					// variadic operands: stores into the argument array, by index
					var ops []ssa.Value
					if sl, ok := x.Call.Args[len(x.Call.Args)-1].(*ssa.Slice); ok {
						if al, isAl := sl.X.(*ssa.Alloc); isAl {
							byIdx := map[int64]ssa.Value{}
							max := int64(-1)
							for _, r := range *al.Referrers() {
								ia, isIA := r.(*ssa.IndexAddr)
								if !isIA {
									continue
								}
								k, isK := core.ConstInt(ia.Index)
								if !isK {
									continue
								}
								for _, rr := range *ia.Referrers() {
									if st, isSt := rr.(*ssa.Store); isSt {
										byIdx[k] = st.Val
										if k > max {
											max = k
										}
									}
								}
							}
							for i := int64(0); i <= max; i++ {
								if v := byIdx[i]; v != nil {
									ops = append(ops, v)
								}
							}
						}
					}
					check(x.Pos(), ops)
				case *ssa.Return:
					if len(x.Results) > 0 {
						if bo, ok := x.Results[0].(*ssa.BinOp); ok && bo.Op == token.ADD {
							check(x.Pos(), flatten(bo, 0))
						}
					}
				}
			})
		}
		if n < 3 {
			l.Bad(rule, "FormatType:floor", c.Rel(ft.Pos()), fmt.Sprintf("only %d compositions from a pair were recognised (3 confirmed by hand)", n))
		}
	}
	// ---- producer
	bt := c.SSAFunc(c.LookupFunc("gen", "generateServiceBuilder.buildType"))
	if bt == nil {
		l.Unk(rule, "buildType", "", "gen buildType not found")
		return
	}
	// specOf: v is the description built from <spec>.KeySpec / <spec>.ValueSpec
	specOf := func(v ssa.Value) string {
		for d := 0; d < 6; d++ {
			switch x := v.(type) {
			case *ssa.Extract:
				v = x.Tuple
				continue
			case *ssa.Call:
				if x.Call.StaticCallee() != bt {
					return ""
				}
				for _, a := range x.Call.Args {
					if fld, _ := core.LoadedField(a); fld != nil && (fld.Name() == "KeySpec" || fld.Name() == "ValueSpec") {
						return fld.Name()
					}
				}
				return ""
			}
			break
		}
		return ""
	}
	m := 0
	for _, host := range c.AllFuncs("gen") {
		if c.IsTestFile(host.Pos()) || core.IsGenerated2(c, host) {
			continue
		}
		core.Instrs(host, func(in ssa.Instruction) {
			al, ok := in.(*ssa.Alloc)
			if !ok {
				return
			}
			named, _ := al.Type().Underlying().(*types.Pointer).Elem().(*types.Named)
			if named == nil || named.Obj().Name() != "TypePair" {
				return
			}
			m++
			got := map[string]string{}
			for _, r := range *al.Referrers() {
				fa, isFA := r.(*ssa.FieldAddr)
				if !isFA {
					continue
				}
				fld := core.FieldOf(fa)
				for _, rr := range *fa.Referrers() {
					if st, isSt := rr.(*ssa.Store); isSt && st.Addr == ssa.Value(fa) {
						got[fld.Name()] = specOf(st.Val)
					}
				}
			}
			ok2 := (got["Left"] == "KeySpec" && got["Right"] == "ValueSpec") || (got["Left"] == "ValueSpec" && got["Right"] == "")
			l.Check(ok2, rule, fmt.Sprintf("buildType:pair#%d", m), c.Rel(al.Pos()), "Left is built from the key specification (the element of a set), Right from the value specification", fmt.Sprintf("Left is built from %q and Right from %q", got["Left"], got["Right"]))
		})
	}
	if m < 3 {
		l.Bad(rule, "buildType:floor", c.Rel(bt.Pos()), fmt.Sprintf("only %d TypePair constructions found (3 confirmed by hand)", m))
	}
}
