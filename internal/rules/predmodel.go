package rules

import (
	"go/ast"
	"go/token"
	"strings"

	"golang.org/x/tools/go/ssa"

	"verif/internal/core"
	"verif/internal/tmpl"
)

// checkPredModels ties the template predicates that the rules interpret to
// their Go bodies. The encoder/decoder/accessor rules read the atom
// `isNotNil .Default` as "the field declares a default"; that reading is sound
// only if the helper answers false exactly for a nil interface. A helper that
// may also answer false for a present value (for instance for an empty
// collection) silently turns declared defaults into absent ones.
func checkPredModels(c *core.Ctx, l *core.Ledger, mod *tmpl.Model, rule string) {
	b := mod.Global["isNotNil"]
	if b == nil {
		l.Unk(rule, "isNotNil", "", "template function isNotNil is not bound")
		return
	}
	var f *ssa.Function
	if b.Lit != nil {
		f = ssaOfLit(c, b.Lit)
	} else if b.Obj != nil {
		f = c.SSAFunc(b.Obj)
	}
	if f == nil || len(f.Params) < 1 {
		l.Unk(rule, "isNotNil", "", "body of isNotNil not found")
		return
	}
	val := f.Params[len(f.Params)-1]
	isNilCmp := func(v ssa.Value, op token.Token) bool {
		bo, ok := v.(*ssa.BinOp)
		if !ok || bo.Op != op {
			return false
		}
		k, isK := bo.Y.(*ssa.Const)
		return bo.X == ssa.Value(val) && isK && k.IsNil()
	}
	nilEdges := core.GuardEdges(f, func(cm core.Cmp) bool {
		k, isK := cm.Y.(*ssa.Const)
		return cm.Op == token.EQL && cm.X == ssa.Value(val) && isK && k.IsNil()
	})
	var why []string
	nret := 0
	core.Instrs(f, func(in ssa.Instruction) {
		r, ok := in.(*ssa.Return)
		if !ok || len(r.Results) != 1 {
			return
		}
		nret++
		v := r.Results[0]
		switch {
		case isNilCmp(v, token.NEQ):
		case core.Sym(v) == "c:true":
			// must not be reachable with a nil value: fine either way for "present => true"
		case core.Sym(v) == "c:false":
			if len(nilEdges) == 0 || !core.AllPathsThroughEdges(f, r.Block(), nilEdges) {
				why = append(why, "answers false on a path where the value is not nil ("+c.Rel(r.Pos())+")")
			}
		default:
			// !reflect.Value.IsNil() is a nil-ness test too
			if u, isU := v.(*ssa.UnOp); isU && u.Op == token.NOT {
				if call, isC := u.X.(*ssa.Call); isC && call.Call.StaticCallee() != nil && call.Call.StaticCallee().Name() == "IsNil" {
					return
				}
			}
			why = append(why, "answers with a computed value other than a nil test ("+core.Sym(v)+" at "+c.Rel(r.Pos())+"): a present default can be reported absent")
		}
	})
	l.Check(len(why) == 0 && nret > 0, rule, "isNotNil", c.Rel(f.Pos()), "isNotNil answers false only for a nil value, so `isNotNil .Default` means exactly 'a default is declared'", strings.Join(why, "; "))
}

// ssaOfLit finds the SSA function built for a function literal.
func ssaOfLit(c *core.Ctx, lit *ast.FuncLit) *ssa.Function {
	for _, f := range c.AllFuncs() {
		if fl, ok := f.Syntax().(*ast.FuncLit); ok && fl == lit {
			return f
		}
	}
	return nil
}
