package rules

import (
	"fmt"
	"go/constant"
	"go/token"
	"go/types"
	"sort"
	"strings"

	"golang.org/x/tools/go/ssa"

	"verif/internal/core"
)

// Finite-domain evaluation of a function that scans a slice with a
// per-element test: the function's CFG is walked for every sequence of test
// outcomes up to length 3 (a scan that carries one boolean and an index
// cannot tell longer sequences apart from these), with integers and booleans
// computed and everything else opaque. Nothing of the repository is
// executed: the walk reads SSA instructions and decides branches from the
// abstract input. The caller names the element field the test reads and the
// event whose occurrence is the outcome.

type qv struct {
	kind string // int, bool, nil, elem, elemval, fieldaddr, fieldval, opaque, tuple
	i    int64
	b    bool
	name string
	idx  int
}

type quantEval struct {
	c       *core.Ctx
	seq     []bool
	field   string // element field whose non-nil-ness is the test
	isEvent func(ssa.CallInstruction) bool
	event   bool
	steps   int
	err     string
}

func (q *quantEval) run(f *ssa.Function, args []qv, depth int) qv {
	if depth > 3 || len(f.Blocks) == 0 {
		q.err = "call depth or external function: " + f.String()
		return qv{kind: "opaque"}
	}
	env := map[ssa.Value]qv{}
	for i, p := range f.Params {
		if i < len(args) {
			env[p] = args[i]
		} else {
			env[p] = qv{kind: "opaque"}
		}
	}
	val := func(v ssa.Value) qv {
		if k, ok := v.(*ssa.Const); ok {
			if k.Value == nil {
				return qv{kind: "nil"}
			}
			switch k.Value.Kind() {
			case constant.Bool:
				return qv{kind: "bool", b: constant.BoolVal(k.Value)}
			case constant.Int:
				n, _ := constant.Int64Val(k.Value)
				return qv{kind: "int", i: n}
			}
			return qv{kind: "opaque"}
		}
		if x, ok := env[v]; ok {
			return x
		}
		return qv{kind: "opaque"}
	}
	cells := map[ssa.Value]qv{} // local variables (Alloc)
	b := f.Blocks[0]
	var prev *ssa.BasicBlock
	for {
		// phis first, simultaneously
		phiVals := map[*ssa.Phi]qv{}
		for _, in := range b.Instrs {
			ph, ok := in.(*ssa.Phi)
			if !ok {
				break
			}
			for i, p := range b.Preds {
				if p == prev {
					phiVals[ph] = val(ph.Edges[i])
				}
			}
		}
		for ph, v := range phiVals {
			env[ph] = v
		}
		for _, in := range b.Instrs {
			q.steps++
			if q.steps > 4000 {
				q.err = "evaluation did not finish"
				return qv{kind: "opaque"}
			}
			switch x := in.(type) {
			case *ssa.Phi, *ssa.DebugRef:
			case *ssa.Alloc:
				cells[x] = qv{kind: "zero"}
				env[x] = qv{kind: "cell"}
			case *ssa.Store:
				if al, ok := x.Addr.(*ssa.Alloc); ok {
					cells[al] = val(x.Val)
				}
			case *ssa.UnOp:
				switch x.Op {
				case token.MUL:
					if al, ok := x.X.(*ssa.Alloc); ok {
						cv := cells[al]
						if cv.kind == "zero" {
							if bt, isB := x.Type().Underlying().(*types.Basic); isB && bt.Info()&types.IsBoolean != 0 {
								cv = qv{kind: "bool"}
							} else if isB && bt.Info()&types.IsInteger != 0 {
								cv = qv{kind: "int"}
							} else {
								cv = qv{kind: "nil"}
							}
						}
						env[x] = cv
						break
					}
					a := val(x.X)
					switch a.kind {
					case "elem":
						env[x] = qv{kind: "elemval", idx: a.idx}
					case "fieldaddr":
						env[x] = qv{kind: "fieldval", idx: a.idx, name: a.name}
					default:
						env[x] = qv{kind: "opaque"}
					}
				case token.NOT:
					a := val(x.X)
					if a.kind != "bool" {
						q.err = "negation of a value that is not decided by the abstract input: " + core.Sym(x.X)
						return qv{kind: "opaque"}
					}
					env[x] = qv{kind: "bool", b: !a.b}
				default:
					env[x] = qv{kind: "opaque"}
				}
			case *ssa.IndexAddr:
				i := val(x.Index)
				if i.kind == "int" && i.i >= 0 && int(i.i) < len(q.seq) {
					env[x] = qv{kind: "elem", idx: int(i.i)}
				} else {
					env[x] = qv{kind: "opaque"}
				}
			case *ssa.Index:
				i := val(x.Index)
				if i.kind == "int" && i.i >= 0 && int(i.i) < len(q.seq) {
					env[x] = qv{kind: "elemval", idx: int(i.i)}
				} else {
					env[x] = qv{kind: "opaque"}
				}
			case *ssa.FieldAddr:
				a := val(x.X)
				if a.kind == "elemval" || a.kind == "elem" {
					env[x] = qv{kind: "fieldaddr", idx: a.idx, name: core.FieldName(core.FieldOf(x))}
				} else {
					env[x] = qv{kind: "opaque"}
				}
			case *ssa.Field:
				a := val(x.X)
				if a.kind == "elemval" {
					env[x] = qv{kind: "fieldval", idx: a.idx, name: core.FieldName(core.FieldOf(x))}
				} else {
					env[x] = qv{kind: "opaque"}
				}
			case *ssa.BinOp:
				l, r := val(x.X), val(x.Y)
				switch {
				case l.kind == "int" && r.kind == "int":
					switch x.Op {
					case token.ADD:
						env[x] = qv{kind: "int", i: l.i + r.i}
					case token.SUB:
						env[x] = qv{kind: "int", i: l.i - r.i}
					case token.LSS:
						env[x] = qv{kind: "bool", b: l.i < r.i}
					case token.LEQ:
						env[x] = qv{kind: "bool", b: l.i <= r.i}
					case token.GTR:
						env[x] = qv{kind: "bool", b: l.i > r.i}
					case token.GEQ:
						env[x] = qv{kind: "bool", b: l.i >= r.i}
					case token.EQL:
						env[x] = qv{kind: "bool", b: l.i == r.i}
					case token.NEQ:
						env[x] = qv{kind: "bool", b: l.i != r.i}
					default:
						env[x] = qv{kind: "opaque"}
					}
				case l.kind == "bool" && r.kind == "bool":
					switch x.Op {
					case token.EQL:
						env[x] = qv{kind: "bool", b: l.b == r.b}
					case token.NEQ:
						env[x] = qv{kind: "bool", b: l.b != r.b}
					case token.AND, token.LAND:
						env[x] = qv{kind: "bool", b: l.b && r.b}
					case token.OR, token.LOR:
						env[x] = qv{kind: "bool", b: l.b || r.b}
					default:
						env[x] = qv{kind: "opaque"}
					}
				case (l.kind == "fieldval" && r.kind == "nil") || (r.kind == "fieldval" && l.kind == "nil"):
					fv := l
					if l.kind == "nil" {
						fv = r
					}
					if fv.name != q.field || (x.Op != token.EQL && x.Op != token.NEQ) {
						env[x] = qv{kind: "opaque"}
						break
					}
					set := q.seq[fv.idx]
					env[x] = qv{kind: "bool", b: set == (x.Op == token.NEQ)}
				default:
					env[x] = qv{kind: "opaque"}
				}
			case *ssa.Call:
				if bi, ok := x.Call.Value.(*ssa.Builtin); ok {
					if bi.Name() == "len" {
						env[x] = qv{kind: "int", i: int64(len(q.seq))}
					} else {
						env[x] = qv{kind: "opaque"}
					}
					break
				}
				if o := core.CalleeObj(x); o != nil && o.Pkg() != nil && o.Pkg().Path() == "slices" && (o.Name() == "ContainsFunc" || o.Name() == "IndexFunc") && len(x.Call.Args) == 2 {
					// the library scan: the predicate is applied to the elements in order until it holds
					pred := funcValueTarget(x.Call.Args[1])
					if pred == nil || len(pred.Params) != 1 || !returnsBool(pred) {
						q.err = "predicate passed to slices." + o.Name() + " is not a function literal or named function"
						return qv{kind: "opaque"}
					}
					found := int64(-1)
					for i := range q.seq {
						r := q.run(pred, []qv{{kind: "elemval", idx: i}}, depth+1)
						if q.err != "" {
							return qv{kind: "opaque"}
						}
						if r.kind != "bool" {
							q.err = "predicate result is not decided by the abstract input"
							return qv{kind: "opaque"}
						}
						if r.b {
							found = int64(i)
							break
						}
					}
					if o.Name() == "ContainsFunc" {
						env[x] = qv{kind: "bool", b: found >= 0}
					} else {
						env[x] = qv{kind: "int", i: found}
					}
					break
				}
				if q.isEvent(x) {
					q.event = true
					env[x] = qv{kind: "opaque"}
					break
				}
				if cal := x.Call.StaticCallee(); cal != nil && core.InRepo(cal) && len(cal.Blocks) > 0 && returnsBool(cal) {
					var as []qv
					for _, a := range x.Call.Args {
						as = append(as, val(a))
					}
					env[x] = q.run(cal, as, depth+1)
					if q.err != "" {
						return qv{kind: "opaque"}
					}
					break
				}
				env[x] = qv{kind: "opaque"}
			case *ssa.Extract:
				env[x] = qv{kind: "opaque"}
			case *ssa.If:
				cv := val(x.Cond)
				if cv.kind != "bool" {
					q.err = "branch on a value the abstract input does not decide: " + core.Sym(x.Cond) + " (" + q.c.Rel(x.Pos()) + ")"
					return qv{kind: "opaque"}
				}
				prev = b
				if cv.b {
					b = b.Succs[0]
				} else {
					b = b.Succs[1]
				}
			case *ssa.Jump:
				prev = b
				b = b.Succs[0]
			case *ssa.Return:
				if len(x.Results) == 1 {
					return val(x.Results[0])
				}
				return qv{kind: "opaque"}
			case *ssa.Panic:
				q.err = "panic reached"
				return qv{kind: "opaque"}
			default:
				if v, ok := in.(ssa.Value); ok {
					env[v] = qv{kind: "opaque"}
				}
			}
			if _, isT := in.(*ssa.If); isT {
				break
			}
			if _, isJ := in.(*ssa.Jump); isJ {
				break
			}
		}
	}
}

func returnsBool(f *ssa.Function) bool {
	r := f.Signature.Results()
	if r.Len() != 1 {
		return false
	}
	bt, ok := r.At(0).Type().Underlying().(*types.Basic)
	return ok && bt.Info()&types.IsBoolean != 0
}

// quantifierTable evaluates f on every sequence up to length 3 and returns,
// per sequence, whether the event happened.
func quantifierTable(c *core.Ctx, f *ssa.Function, field string, isEvent func(ssa.CallInstruction) bool) (map[string]bool, string) {
	out := map[string]bool{}
	for n := 0; n <= 3; n++ {
		for m := 0; m < 1<<n; m++ {
			seq := make([]bool, n)
			key := ""
			for i := range seq {
				seq[i] = m&(1<<i) != 0
				if seq[i] {
					key += "D"
				} else {
					key += "-"
				}
			}
			q := &quantEval{c: c, seq: seq, field: field, isEvent: isEvent}
			args := make([]qv, len(f.Params))
			for i := range args {
				args[i] = qv{kind: "opaque"}
			}
			q.run(f, args, 0)
			if q.err != "" {
				return nil, q.err
			}
			out["["+key+"]"] = q.event
		}
	}
	return out, ""
}

// checkDefaultCtorExists (DEFAULT-CTOR): the default constructor of a struct
// is declared exactly when some field declares a default.
func checkDefaultCtorExists(c *core.Ctx, l *core.Ledger, rule string) {
	f := c.SSAFunc(c.LookupFunc("gen", "fieldGroupGenerator.DefineDefaultConstructor"))
	if f == nil {
		l.Unk(rule, "DefineDefaultConstructor", "", "gen.fieldGroupGenerator.DefineDefaultConstructor not found")
		return
	}
	tab, why := quantifierTable(c, f, "Default", func(call ssa.CallInstruction) bool {
		return call.Common().IsInvoke() && strings.HasPrefix(call.Common().Method.Name(), "DeclareFromTemplate")
	})
	if why != "" {
		l.Unk(rule, "DefineDefaultConstructor", c.Rel(f.Pos()), "finite-domain evaluation stopped: "+why)
		return
	}
	var bad []string
	for k, declared := range tab {
		want := strings.Contains(k, "D")
		if declared != want {
			bad = append(bad, fmt.Sprintf("fields %s (D = has a default): constructor declared=%v", k, declared))
		}
	}
	sort.Strings(bad)
	l.Check(len(bad) == 0, rule, "DefineDefaultConstructor", c.Rel(f.Pos()), fmt.Sprintf("evaluated on all %d default patterns of up to 3 fields: the constructor is declared exactly when some field has a default", len(tab)), "the default constructor is not declared exactly when some field has a default: "+strings.Join(bad, "; "))
}
