// Package rules holds the property-specific rule instances.
package rules

import (
	"go/token"

	"golang.org/x/tools/go/ssa"

	"verif/internal/core"
)

// Check is the rule set of one property.
type Check func(c *core.Ctx, l *core.Ledger)

// Registry maps property ids to their checks.
var Registry = map[string]Check{}

// TrustedBase is shared by all properties.
var TrustedBase = []string{
	"go/types and go/packages (type checker, constant folding)",
	"golang.org/x/tools v0.29.0 go/ssa (SSA construction, dominators) and callgraph/vta",
	"text/template/parse (template syntax trees)",
	"the checker itself (/verif/internal), incl. its frozen Thrift binary-protocol table",
}

// inlineHelpers returns the in-place exploration policy used by trace rules:
// statically called unexported functions of the caller's own package are
// explored in place unless the rule's frozen expectations name them (anchors).
// A newly extracted helper therefore leaves the extracted traces unchanged.
func inlineHelpers(anchors ...string) func(caller, callee *ssa.Function) bool {
	known := map[string]bool{}
	for _, a := range anchors {
		known[a] = true
	}
	return func(caller, callee *ssa.Function) bool {
		if callee == nil || caller == nil || callee.Pkg == nil || caller.Pkg != callee.Pkg {
			return false
		}
		if token.IsExported(callee.Name()) || known[core.CanonName(callee)] {
			return false
		}
		if callee.Synthetic != "" {
			return false
		}
		return true
	}
}
