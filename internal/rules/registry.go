// Package rules holds the property-specific rule instances.
package rules

import "verif/internal/core"

// Check is the rule set of one property.
type Check func(c *core.Ctx, l *core.Ledger)

// Registry maps property ids to their checks.
var Registry = map[string]Check{}

// TrustedBase is shared by all properties.
var TrustedBase = []string{
	"go/types and go/packages (type checker, constant folding)",
	"golang.org/x/tools v0.29.0 go/ssa (SSA construction, dominators) and callgraph/vta",
	"text/template/parse (template syntax trees)",
	"the checker itself (/verif/internal), incl. its frozen Thrift binary-protocol table",
}
