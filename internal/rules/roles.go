package rules

import (
	"go/token"
	"go/types"
	"sort"
	"strings"

	"golang.org/x/tools/go/ssa"

	"verif/internal/core"
)

// EnsureAliases re-identifies, by their role in the code, the unexported
// helpers of protocol/binary that the rules refer to by name, whenever a helper
// of that name no longer exists (it was renamed). A helper found this way is
// given its canonical name as an alias (core.SetAlias), which LookupFunc and
// every symbolic rendering honour; the rules themselves are unchanged. When all
// canonical names exist — the tree as pinned — nothing is done.
//
// Roles are taken from the dispatch structure of exported entry points, which
// a rename of an unexported helper cannot change: what reader.ReadValue calls
// for a struct/map/set/list, what StreamReader.Skip calls for them, the two
// helpers of ReadEnvelopeBegin / ReadEnveloped told apart by the version mask,
// the only func(wire.Type) integer function of the package, and so on. A role
// that cannot be identified uniquely is left alone (the rule then reports the
// missing anchor as before).
func EnsureAliases(c *core.Ctx) {
	const rel = "protocol/binary"
	if c.Pkg(rel) == nil {
		c.ResolveAllAnchors()
		return
	}
	have := func(canon string) bool { return c.LookupFunc(rel, canon) != nil }
	get := func(canon string) *ssa.Function { return c.SSAFunc(c.LookupFunc(rel, canon)) }
	set := func(canon string, f *ssa.Function) {
		if f == nil || have(canon) {
			return
		}
		if o, ok := f.Object().(*types.Func); ok {
			// never alias a function that already is some canonical helper
			core.SetAlias(rel, canon, o)
		}
	}
	layerCallees := func(f *ssa.Function, recv string, decide func(*ssa.If) (int, bool)) []*ssa.Function {
		if f == nil {
			return nil
		}
		var out []*ssa.Function
		seen := map[*ssa.Function]bool{}
		core.SuccessSeqs(f, core.SeqOpts{Decide: decide, Classify: func(in ssa.Instruction, inLoop bool) []string {
			if call, ok := in.(*ssa.Call); ok {
				if cal := call.Call.StaticCallee(); cal != nil && core.PkgRel(cal) == rel && recvNamed(cal) == recv && !token.IsExported(cal.Name()) && !seen[cal] {
					seen[cal] = true
					out = append(out, cal)
				}
			}
			return nil
		}})
		return out
	}
	typeIs := func(f *ssa.Function, param int, code int64) func(*ssa.If) (int, bool) {
		return func(ifi *ssa.If) (int, bool) {
			return c.ConstCond(ifi, func(v ssa.Value) (core.CVal, bool) {
				if p, ok := v.(*ssa.Parameter); ok && param < len(f.Params) && p == f.Params[param] {
					return core.CVal{Kind: core.CInt, I: code}, true
				}
				if call, ok := v.(*ssa.Call); ok {
					if cal := call.Call.StaticCallee(); cal != nil && cal.Name() == "Type" && len(call.Call.Args) == 1 && core.Sym(call.Call.Args[0]) == "$1" {
						return core.CVal{Kind: core.CInt, I: code}, true
					}
				}
				return core.CVal{}, false
			})
		}
	}
	// those callees of f (per code) that are called for this code only
	perCode := func(f *ssa.Function, recv string, param int, codes []int64) map[int64]*ssa.Function {
		all := map[int64][]*ssa.Function{}
		count := map[*ssa.Function]int{}
		for _, k := range codes {
			all[k] = layerCallees(f, recv, typeIs(f, param, k))
			for _, g := range all[k] {
				count[g]++
			}
		}
		out := map[int64]*ssa.Function{}
		for _, k := range codes {
			var own []*ssa.Function
			for _, g := range all[k] {
				if count[g] < len(codes) {
					own = append(own, g)
				}
			}
			if len(own) == 1 {
				out[k] = own[0]
			}
		}
		return out
	}
	usesMask := func(f *ssa.Function) bool {
		found := false
		core.Instrs(f, func(in ssa.Instruction) {
			if bo, ok := in.(*ssa.BinOp); ok && bo.Op == token.AND {
				for _, op := range []ssa.Value{bo.X, bo.Y} {
					if k, isK := core.ConstInt(op); isK && (k == 0xffff0000 || k == -65536) {
						found = true
					}
				}
			}
		})
		return found
	}

	// fixedWidth: the only package-level func(wire.Type) <integer>
	if !have("fixedWidth") {
		var cands []*ssa.Function
		for _, f := range c.AllFuncs(rel) {
			if c.IsTestFile(f.Pos()) || f.Signature.Recv() != nil || f.Parent() != nil || len(f.Params) != 1 || f.Signature.Results().Len() != 1 {
				continue
			}
			if core.TypeLabel(f.Params[0].Type()) != "wire.Type" {
				continue
			}
			if b, ok := f.Signature.Results().At(0).Type().Underlying().(*types.Basic); ok && b.Info()&types.IsInteger != 0 {
				cands = append(cands, f)
			}
		}
		if len(cands) == 1 {
			set("fixedWidth", cands[0])
		}
	}
	// reader.ReadValue dispatch
	if rv := get("reader.ReadValue"); rv != nil {
		m := perCode(rv, "reader", 1, []int64{12, 13, 14, 15})
		set("reader.readStructStream", m[12])
		set("reader.readMapStream", m[13])
		set("reader.readSetStream", m[14])
		set("reader.readListStream", m[15])
	}
	// StreamReader.Skip dispatch (sets and lists share one helper)
	if sk := get("StreamReader.Skip"); sk != nil {
		m := perCode(sk, "StreamReader", 1, []int64{11, 12, 13, 15})
		set("StreamReader.skipStruct", m[12])
		set("StreamReader.skipMap", m[13])
		set("StreamReader.skipList", m[15])
	}
	// the item skippers: what the list/map decoders of the random-access reader call on the stream reader
	only := func(fs []*ssa.Function) *ssa.Function {
		if len(fs) == 1 {
			return fs[0]
		}
		return nil
	}
	set("StreamReader.skipListItems", only(layerCallees(get("reader.readListStream"), "StreamReader", nil)))
	set("StreamReader.skipMapItems", only(layerCallees(get("reader.readMapStream"), "StreamReader", nil)))
	// envelope helpers: two per reader, told apart by the version mask
	pair := func(entry, strict, legacy, recv string) {
		if have(strict) && have(legacy) {
			return
		}
		var s, l []*ssa.Function
		for _, g := range layerCallees(get(entry), recv, nil) {
			if usesMask(g) {
				s = append(s, g)
			} else if strings.Contains(strings.ToLower(g.Signature.Results().String()), "envelope") || g.Signature.Results().Len() >= 2 {
				l = append(l, g)
			}
		}
		if len(s) == 1 && len(l) == 1 {
			set(strict, s[0])
			set(legacy, l[0])
		}
	}
	pair("StreamReader.ReadEnvelopeBegin", "StreamReader.readStrictEnvelope", "StreamReader.readNonStrictEnvelope", "StreamReader")
	pair("Reader.ReadEnveloped", "Reader.readStrictNameType", "Reader.readNonStrictNameType", "Reader")
	// readBytes: the one unexported helper of ReadBinary
	set("StreamReader.readBytes", only(layerCallees(get("StreamReader.ReadBinary"), "StreamReader", nil)))
	// Writer.WriteValue dispatch
	if wv := get("Writer.WriteValue"); wv != nil {
		m := perCode(wv, "Writer", 1, []int64{12, 13, 14, 15})
		set("Writer.writeStruct", m[12])
		set("Writer.writeMap", m[13])
		set("Writer.writeSet", m[14])
		set("Writer.writeList", m[15])
		set("Writer.writeField", only(layerCallees(get("Writer.writeStruct"), "Writer", nil)))
	}
	_ = sort.Strings
	// everything else: by recorded fingerprint
	c.ResolveAllAnchors()
}
