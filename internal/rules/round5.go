package rules

import (
	"fmt"
	"go/token"
	"go/types"
	"strings"

	"golang.org/x/tools/go/ssa"

	"verif/internal/core"
	"verif/internal/tmpl"
)

// checkPtrFresh (PTR-FRESH): every function of package ptr returns the address
// of a variable of its own — a fresh cell per call — never of a package-level
// variable or of anything else that outlives the call. Generated code stores
// these pointers into optional fields as defaults; a shared cell would let a
// write through one decoded value change what every later decode yields.
func checkPtrFresh(c *core.Ctx, l *core.Ledger, rule string) {
	n := 0
	for _, f := range c.AllFuncs("ptr") {
		if c.IsTestFile(f.Pos()) || f.Parent() != nil || len(f.Blocks) == 0 || f.Signature.Results().Len() != 1 {
			continue
		}
		if _, isP := f.Signature.Results().At(0).Type().Underlying().(*types.Pointer); !isP {
			continue
		}
		n++
		var why []string
		core.Instrs(f, func(in ssa.Instruction) {
			r, ok := in.(*ssa.Return)
			if !ok || len(r.Results) != 1 {
				return
			}
			var check func(v ssa.Value, d int)
			check = func(v ssa.Value, d int) {
				switch x := v.(type) {
				case *ssa.Alloc:
					if !x.Heap {
						why = append(why, "returns the address of a stack cell")
					}
				case *ssa.Phi:
					if d < 4 {
						for _, e := range x.Edges {
							check(e, d+1)
						}
					}
				case *ssa.Global:
					why = append(why, "returns the address of the package-level variable "+x.Name()+": every caller shares one cell")
				default:
					why = append(why, fmt.Sprintf("returns %s, which is not a variable allocated by this call", core.Sym(v)))
				}
			}
			check(r.Results[0], 0)
		})
		l.Check(len(why) == 0, rule, "ptr."+f.Name(), c.Rel(f.Pos()), "returns the address of a cell allocated by the call", strings.Join(uniq(why), "; "))
	}
	l.Floor(rule, 5)
	_ = n
}

// checkNotFoundUnequal (EQ-KIND not-found): in the equality functions of package
// wire, a comma-ok map lookup that misses means the two values differ: the
// not-found edge leads straight to `return false` (or the function's
// not-equal error). A miss that merely skips the comparison makes values with
// different key sets equal.
func checkNotFoundUnequal(c *core.Ctx, l *core.Ledger) {
	n := 0
	for _, f := range c.AllFuncs("wire") {
		if c.IsTestFile(f.Pos()) || len(f.Blocks) == 0 {
			continue
		}
		top := f
		for top.Parent() != nil {
			top = top.Parent()
		}
		if !strings.Contains(strings.ToLower(top.Name()), "equal") {
			continue
		}
		k := 0
		core.Instrs(f, func(in ssa.Instruction) {
			lk, ok := in.(*ssa.Lookup)
			if !ok || !lk.CommaOk {
				return
			}
			var okv ssa.Value
			for _, r := range *lk.Referrers() {
				if ex, isEx := r.(*ssa.Extract); isEx && ex.Index == 1 {
					okv = ex
				}
			}
			if okv == nil {
				return
			}
			k++
			n++
			key := fmt.Sprintf("not-found:%s#%d", core.SSAName(f), k)
			good := false
			why := "the result of the membership test is not branched on"
			for _, r := range *okv.Referrers() {
				ifi, isIf := r.(*ssa.If)
				if !isIf {
					continue
				}
				miss := ifi.Block().Succs[1]
				// follow jumps
				for i := 0; i < 3 && len(miss.Instrs) == 1; i++ {
					if _, isJ := miss.Instrs[0].(*ssa.Jump); isJ {
						miss = miss.Succs[0]
					} else {
						break
					}
				}
				ret, isRet := miss.Instrs[len(miss.Instrs)-1].(*ssa.Return)
				if !isRet || len(ret.Results) != 1 {
					why = "a key that is missing on the other side does not end the comparison: the entry is skipped and values with different key sets compare equal"
					continue
				}
				switch v := ret.Results[0].(type) {
				case *ssa.Const:
					good = v.Value != nil && v.Value.String() == "false"
				default:
					// the closure form: returns the not-equal sentinel error
					good = core.IsErrorType(v.Type()) && !func() bool { k, isK := v.(*ssa.Const); return isK && k.IsNil() }()
				}
				if !good {
					why = "the not-found edge does not answer 'unequal'"
				}
			}
			l.Check(good, "EQ-KIND", key, c.Rel(in.Pos()), "a missing key ends the comparison with 'unequal'", why)
		})
	}
	l.Units["wire_equality_lookups"] = n
}

// checkMuxSplit (MUX-SPLIT): the multiplexing client prefixes "service:" to the
// method name; the handler must undo exactly that — split at the FIRST ':' —
// so that method names that themselves contain ':' (nested multiplexing)
// reach the right service with the rest intact. Accepted: strings.SplitN(name,
// ":", 2), strings.Cut, strings.Index / IndexByte / IndexRune; LastIndex* or an
// unbounded Split are not the inverse.
func checkMuxSplit(c *core.Ctx, l *core.Ledger, rule string) {
	f := c.SSAFunc(c.LookupFunc("internal/multiplex", "Handler.Handle"))
	if f == nil {
		l.Unk(rule, "Handler.Handle", "", "internal/multiplex.Handler.Handle not found")
		return
	}
	var ok, bad []string
	core.WalkInlined(f, inlineHelpers(), func(in ssa.Instruction, via []*ssa.Call) {
		call, isC := in.(*ssa.Call)
		if !isC {
			return
		}
		o := core.CalleeObj(call)
		if o == nil || o.Pkg() == nil || o.Pkg().Path() != "strings" {
			return
		}
		switch o.Name() {
		case "SplitN":
			if k, isK := core.ConstInt(call.Call.Args[2]); isK && k == 2 {
				ok = append(ok, "SplitN(…, 2)")
			} else {
				bad = append(bad, "SplitN with a limit other than 2")
			}
		case "Cut", "Index", "IndexByte", "IndexRune":
			ok = append(ok, o.Name())
		case "LastIndex", "LastIndexByte", "LastIndexAny", "Split", "SplitAfter", "Fields":
			bad = append(bad, o.Name()+" at "+c.Rel(call.Pos()))
		}
	})
	// a name without ':' yields a one-element split: the element after it is read only where the length test said it exists
	core.Instrs(f, func(in ssa.Instruction) {
		ia, isIA := in.(*ssa.IndexAddr)
		if !isIA {
			return
		}
		k, isK := core.ConstInt(ia.Index)
		src, isCall := ia.X.(*ssa.Call)
		if !isK || !isCall {
			return
		}
		if o := core.CalleeObj(src); o == nil || o.Pkg() == nil || o.Pkg().Path() != "strings" {
			return
		}
		if k == 0 {
			return // SplitN always yields at least one element
		}
		edges := core.GuardEdges(f, func(cm core.Cmp) bool {
			call, isLen := cm.X.(*ssa.Call)
			if !isLen {
				return false
			}
			if bi, isB := call.Call.Value.(*ssa.Builtin); !isB || bi.Name() != "len" || call.Call.Args[0] != ssa.Value(src) {
				return false
			}
			n, isN := core.ConstInt(cm.Y)
			if !isN {
				return false
			}
			switch cm.Op {
			case token.GTR:
				return n >= k
			case token.GEQ, token.EQL:
				return n >= k+1
			}
			return false
		})
		if len(edges) == 0 || !core.AllPathsThroughEdges(f, ia.Block(), edges) {
			bad = append(bad, fmt.Sprintf("element %d of the split is read at %s without a test that it exists (a name without ':' panics)", k, c.Rel(ia.Pos())))
		}
	})
	l.Check(len(ok) > 0 && len(bad) == 0, rule, "Handler.Handle", c.Rel(f.Pos()), "the service prefix is taken off at the first ':' ("+strings.Join(uniq(ok), ", ")+")", "the handler does not split the method name at the first ':' ("+strings.Join(uniq(bad), ", ")+"): names containing ':' reach the wrong service")
}

// checkCompareEarlyExit (COVER early-exit): the comparison visits every old
// service, method, type and field. Inside CompareModules and the functions of
// the package it reaches, a return may therefore be conditional only on the
// structural facts the documented rules are about — a counterpart that is
// absent (nil), a definition that is not a struct (type assertion) — or be the
// plain end of the function. A return under any other condition (sizes, names,
// flags) skips part of the traversal, and what it skips is never diagnosed.
func checkCompareEarlyExit(c *core.Ctx, l *core.Ledger) {
	root := c.SSAFunc(c.LookupFunc("internal/compare", "Pass.CompareModules"))
	if root == nil {
		l.Unk("COVER", "early-exit", "", "Pass.CompareModules not found")
		return
	}
	seen := map[*ssa.Function]bool{}
	var order []*ssa.Function
	var visit func(f *ssa.Function)
	visit = func(f *ssa.Function) {
		if f == nil || seen[f] || len(f.Blocks) == 0 {
			return
		}
		seen[f] = true
		order = append(order, f)
		core.Instrs(f, func(in ssa.Instruction) {
			if call, ok := in.(ssa.CallInstruction); ok {
				if cal := call.Common().StaticCallee(); cal != nil && cal.Pkg == root.Pkg && !c.Named(cal, "Report", "getRelativePath") {
					visit(cal)
				}
			}
		})
	}
	visit(root)
	allowed := func(cond string) bool {
		t := strings.TrimPrefix(cond, "!")
		switch {
		case t == "next" || strings.HasPrefix(t, "loop("):
			return true
		case strings.HasPrefix(t, "is("):
			return true
		case strings.HasSuffix(t, "==c:nil)") || strings.HasSuffix(t, "!=c:nil)"):
			return true
		}
		return false
	}
	var why []string
	n := 0
	for _, f := range order {
		// a helper that makes one comparison (no loop, no further traversal call) may return whenever it likes
		traverses := len(core.CyclicBlocks(f)) > 0
		core.Instrs(f, func(in ssa.Instruction) {
			if call, ok := in.(ssa.CallInstruction); ok {
				if cal := call.Common().StaticCallee(); cal != nil && seen[cal] && cal != f {
					traverses = true
				}
			}
		})
		if !traverses {
			continue
		}
		core.Instrs(f, func(in ssa.Instruction) {
			r, ok := in.(*ssa.Return)
			if !ok {
				return
			}
			n++
			for _, cd := range nestingConds(r.Block()) {
				if !allowed(cd) {
					why = append(why, fmt.Sprintf("%s returns at %s under the condition %s: whatever the traversal would have visited after that point is never compared", core.SSAName(f), c.Rel(r.Pos()), cd))
				}
			}
		})
	}
	l.Check(len(why) == 0, "COVER", "early-exit", c.Rel(root.Pos()), fmt.Sprintf("the %d returns of the %d comparison functions are unconditional or depend only on an absent counterpart / a non-struct definition", n, len(order)), strings.Join(uniq(why), "; "))
}

// checkFieldSpecCopies (ANNOT-FLOW): the redaction and no-log predicates read a
// field's Annotations. Wherever package gen builds a compile.FieldSpec out of
// another one (two or more of its fields are copied from the same source
// spec), Annotations must be among the copied fields — otherwise the structs
// generated from the copy (function arguments and results) silently lose
// go.redact / go.nolog.
func checkFieldSpecCopies(c *core.Ctx, l *core.Ledger, rule string) {
	n := 0
	for _, f := range c.AllFuncs("gen") {
		if c.IsTestFile(f.Pos()) {
			continue
		}
		core.Instrs(f, func(in ssa.Instruction) {
			al, ok := in.(*ssa.Alloc)
			if !ok || core.TypeLabel(al.Type()) != "*compile.FieldSpec" {
				return
			}
			from := map[ssa.Value][]string{} // source spec -> fields copied from it
			for _, r := range *al.Referrers() {
				fa, isFA := r.(*ssa.FieldAddr)
				if !isFA {
					continue
				}
				for _, rr := range *fa.Referrers() {
					st, isSt := rr.(*ssa.Store)
					if !isSt || st.Addr != ssa.Value(fa) {
						continue
					}
					if srcFld, base := core.LoadedField(st.Val); srcFld != nil && base != nil && core.TypeLabel(base.Type()) == "*compile.FieldSpec" {
						from[base] = append(from[base], core.FieldName(core.FieldOf(fa)))
					}
				}
			}
			for _, flds := range from {
				if len(flds) < 2 {
					continue
				}
				n++
				has := false
				for _, x := range flds {
					has = has || x == "Annotations"
				}
				l.Check(has, rule, fmt.Sprintf("%s:FieldSpec-copy@%s", core.SSAName(f), c.Rel(al.Pos())), c.Rel(al.Pos()), "the copy carries the source field's Annotations", fmt.Sprintf("a FieldSpec is built from another one (copied: %s) without its Annotations: go.redact / go.nolog on the original are ignored by everything generated from the copy", strings.Join(flds, ", ")))
			}
		})
	}
	l.Add(core.Obligation{Rule: rule, Key: "scan", Status: core.Discharged, Detail: fmt.Sprintf("package gen scanned for FieldSpec copies (%d found)", n)})
}

// checkArgumentNames (REQUEST arg-names): the name a plugin is told for a
// function parameter or declared exception is the Go name of the field in the
// generated Args/Result struct, i.e. the result of goName (which honours
// go.name) applied to the same field specification whose type and annotations
// go into the same api.Argument.
func checkArgumentNames(c *core.Ctx, l *core.Ledger) {
	gn := c.LookupFunc("gen", "goName")
	found := 0
	for _, f := range c.AllFuncs("gen") {
		if c.IsTestFile(f.Pos()) {
			continue
		}
		core.Instrs(f, func(in ssa.Instruction) {
			al, ok := in.(*ssa.Alloc)
			if !ok {
				return
			}
			if pt, isP := al.Type().Underlying().(*types.Pointer); !isP {
				return
			} else if nt, isN := pt.Elem().(*types.Named); !isN || nt.Obj().Name() != "Argument" || nt.Obj().Pkg() == nil || !strings.HasSuffix(nt.Obj().Pkg().Path(), "plugin/api") {
				return
			}
			found++
			nameOK, why := false, "Argument.Name is not assigned"
			for _, r := range *al.Referrers() {
				fa, isFA := r.(*ssa.FieldAddr)
				if !isFA || core.FieldOf(fa) == nil || core.FieldOf(fa).Name() != "Name" {
					continue
				}
				for _, rr := range *fa.Referrers() {
					st, isSt := rr.(*ssa.Store)
					if !isSt {
						continue
					}
					why = "Argument.Name is " + core.Sym(st.Val) + ", not the result of goName on the field: names chosen with go.name (and every name goName and the other function map differently) do not match the generated struct"
					if ex, isEx := st.Val.(*ssa.Extract); isEx && ex.Index == 0 {
						if call, isCall := ex.Tuple.(*ssa.Call); isCall && gn != nil && core.CalleeObj(call) == gn {
							nameOK = true
						}
					}
				}
			}
			l.Check(nameOK, "REQUEST", "arg-names:"+core.SSAName(f), c.Rel(al.Pos()), "parameters and exceptions are described to plugins under their generated Go field names (goName)", why)
		})
	}
	if found == 0 {
		l.Unk("REQUEST", "arg-names", "", "no api.Argument literal found in package gen")
	}
}

// checkIncludeScope (INCLUDE-SCOPE): an include-qualified name is bound in the
// included file. getIncludedScope — the one place where a prefix is turned into
// a scope — therefore returns, on success, nothing but what the scope's
// include table (LookupInclude) gave for that prefix; in particular never the
// scope it was called with (a file named like one of its includes would bind
// `common.X` to itself).
func checkIncludeScope(c *core.Ctx, l *core.Ledger) {
	f := c.SSAFunc(c.LookupFunc("compile", "getIncludedScope"))
	if f == nil {
		l.Unk("INCLUDE-SCOPE", "getIncludedScope", "", "compile.getIncludedScope not found")
		return
	}
	var why []string
	n := 0
	core.Instrs(f, func(in ssa.Instruction) {
		r, ok := in.(*ssa.Return)
		if !ok || len(r.Results) != 2 || !core.IsNilErrorReturn(r) {
			return
		}
		n++
		v := r.Results[0]
		okv := false
		if ex, isEx := v.(*ssa.Extract); isEx && ex.Index == 0 {
			if call, isCall := ex.Tuple.(*ssa.Call); isCall && call.Call.IsInvoke() && call.Call.Method.Name() == "LookupInclude" && core.Sym(call.Call.Value) == "$0" && core.Sym(call.Call.Args[0]) == "$1" {
				okv = true
			}
		}
		if !okv {
			why = append(why, "a successful return at "+c.Rel(r.Pos())+" yields "+core.Sym(v)+", not scope.LookupInclude(name)")
		}
	})
	if n == 0 {
		why = append(why, "no successful return found")
	}
	l.Check(len(why) == 0, "INCLUDE-SCOPE", "getIncludedScope", c.Rel(f.Pos()), "a prefix resolves to the scope the include table holds for it, and to nothing else", strings.Join(why, "; "))
}

// checkByteTransparent (BYTE-SAFE): string literals of the IDL may hold
// arbitrary bytes (\xff escapes). The hand-written code that unquotes them must
// therefore treat them as bytes: no rune-level mapping (bytes.Map, strings.Map,
// bytes.Runes), no conversion to []rune, no range over a string — each of these
// replaces invalid UTF-8 by U+FFFD.
func checkByteTransparent(c *core.Ctx, l *core.Ledger, rule string) {
	n := 0
	var bad []string
	for _, f := range c.AllFuncs("idl/internal") {
		if c.IsTestFile(f.Pos()) {
			continue
		}
		if _, file := c.FileOf(f.Pos()); file == nil || core.IsGenerated(file) {
			continue
		}
		top := f
		for top.Parent() != nil {
			top = top.Parent()
		}
		// only the functions that handle literal text: they take or return []byte / string
		n++
		core.Instrs(f, func(in ssa.Instruction) {
			switch x := in.(type) {
			case *ssa.Call:
				if o := core.CalleeObj(x); o != nil && o.Pkg() != nil {
					switch o.Pkg().Path() + "." + o.Name() {
					case "bytes.Map", "strings.Map", "bytes.Runes", "strings.ToValidUTF8", "bytes.ToValidUTF8":
						bad = append(bad, fmt.Sprintf("%s calls %s.%s at %s", core.SSAName(top), o.Pkg().Name(), o.Name(), c.Rel(in.Pos())))
					}
				}
			case *ssa.Convert:
				if sl, isSl := x.Type().Underlying().(*types.Slice); isSl {
					if b, isB := sl.Elem().Underlying().(*types.Basic); isB && b.Kind() == types.Int32 {
						if _, fromStr := x.X.Type().Underlying().(*types.Basic); fromStr {
							bad = append(bad, fmt.Sprintf("%s converts a string to []rune at %s", core.SSAName(top), c.Rel(in.Pos())))
						}
					}
				}
			case *ssa.Range:
				if b, isB := x.X.Type().Underlying().(*types.Basic); isB && b.Info()&types.IsString != 0 {
					bad = append(bad, fmt.Sprintf("%s ranges over a string by runes at %s", core.SSAName(top), c.Rel(in.Pos())))
				}
			}
		})
	}
	l.Check(len(bad) == 0 && n > 0, rule, "idl/internal", "", fmt.Sprintf("the %d hand-written functions of idl/internal handle literal text bytewise", n), strings.Join(uniq(bad), "; ")+": bytes that are not valid UTF-8 are replaced by U+FFFD")
}

// checkZapCast (ZAP-CAST): for a typedef without marshal methods of its own the
// generated zap code casts the field to a type and then calls the encoder
// method chosen by the typedef's ROOT type (AddInt64, AddString, …). The cast
// must be to that same root type — casting only one alias level down leaves a
// named type the encoder method does not accept, and the generated package
// does not compile for a typedef of a typedef.
func checkZapCast(c *core.Ctx, l *core.Ledger) {
	f := c.SSAFunc(c.LookupFunc("gen", "zapGenerator.zapMarshaler"))
	tr := c.LookupFunc("gen", "typeReference")
	if f == nil || tr == nil {
		l.Unk("ZAP-CAST", "zapMarshaler", "", "gen.zapGenerator.zapMarshaler / typeReference not found")
		return
	}
	n := 0
	var why []string
	core.Instrs(f, func(in ssa.Instruction) {
		call, ok := in.(*ssa.Call)
		if !ok || core.CalleeObj(call) != tr || len(call.Call.Args) != 2 {
			return
		}
		n++
		arg := core.Sym(stripIface(call.Call.Args[1]))
		if !strings.HasPrefix(arg, "compile.RootTypeSpec(") {
			why = append(why, "the cast type at "+c.Rel(call.Pos())+" is typeReference("+arg+"), not the root type the encoder method is chosen by")
		}
	})
	l.Check(len(why) == 0, "ZAP-CAST", "zapMarshaler", c.Rel(f.Pos()), fmt.Sprintf("the %d cast(s) of typedef'd fields are to the typedef's root type", n), strings.Join(why, "; "))
}

// checkLabelVerbatim: the key a field is logged under is its label: the
// go.label annotation when present, the Thrift name otherwise — as written
// in the source. The function bound as the template function that prints
// the key (fieldLabel) must return, on every path, a value that is one of
// those two unchanged: a lookup in the entity's annotations, the entity's
// ThriftName(), or a phi of them. A call that rewrites the string (case
// folding, character replacement, trimming) makes the logged key differ
// from the label the user chose.
func checkLabelVerbatim(c *core.Ctx, l *core.Ledger, mod *tmpl.Model, rule string) {
	seen := map[*types.Func]bool{}
	for _, t := range mod.Templates {
		b := t.Funcs["fieldLabel"]
		if b == nil || b.Obj == nil || seen[b.Obj] {
			continue
		}
		seen[b.Obj] = true
		f := c.SSAFunc(b.Obj)
		if f == nil {
			l.Unk(rule, "fieldLabel", c.Rel(t.Pos), "label function has no body")
			continue
		}
		var bad []string
		var verbatim func(v ssa.Value, d int) bool
		verbatim = func(v ssa.Value, d int) bool {
			if d > 6 {
				return false
			}
			switch x := v.(type) {
			case *ssa.Phi:
				for _, e := range x.Edges {
					if !verbatim(e, d+1) {
						return false
					}
				}
				return true
			case *ssa.Lookup:
				_, isMap := x.X.Type().Underlying().(*types.Map)
				return isMap
			case *ssa.Extract:
				if lk, ok := x.Tuple.(*ssa.Lookup); ok && x.Index == 0 {
					return verbatim(lk, d+1)
				}
			case *ssa.Call:
				if x.Call.IsInvoke() && x.Call.Method.Name() == "ThriftName" {
					return true
				}
				if cal := x.Call.StaticCallee(); cal != nil && core.InRepo(cal) && len(cal.Blocks) > 0 && cal.Signature.Results().Len() == 1 {
					// a repository helper is looked into: it must itself return one of its sources unchanged
					ok := true
					core.Instrs(cal, func(in ssa.Instruction) {
						if r, isR := in.(*ssa.Return); isR && !verbatim(r.Results[0], d+2) {
							ok = false
						}
					})
					return ok
				}
			case *ssa.UnOp:
				if x.Op == token.MUL {
					if fld, _ := core.LoadedField(x); fld != nil {
						return true // a stored name
					}
				}
			case *ssa.Field:
				return true
			}
			return false
		}
		core.Instrs(f, func(in ssa.Instruction) {
			if r, ok := in.(*ssa.Return); ok && len(r.Results) == 1 && !verbatim(r.Results[0], 0) {
				bad = append(bad, c.Rel(r.Pos())+": returns "+core.Sym(r.Results[0]))
			}
		})
		l.Check(len(bad) == 0, rule, "fieldLabel="+core.SSAName(f), c.Rel(f.Pos()), "every path returns the annotation value or the Thrift name unchanged", "the log key is not the label as written: "+strings.Join(bad, "; "))
	}
	l.Floor(rule, 1)
}
