package rules

import (
	"fmt"
	"go/token"
	"go/types"
	"strings"

	"golang.org/x/tools/go/ssa"

	"verif/internal/core"
)

// checkTypedNil (TYPED-NIL): a function whose result is an interface must not
// return a nil pointer wrapped in it — the caller's `!= nil` test then passes
// and the first method call dereferences nil. Flags a return operand that is
// an interface made from a pointer which is nil on some path (a nil constant,
// or a phi with a nil edge).
func checkTypedNil(c *core.Ctx, l *core.Ledger, rule string, rels []string) {
	in := map[string]bool{}
	for _, r := range rels {
		in[r] = true
	}
	n := 0
	for _, f := range c.AllFuncs() {
		if !in[core.PkgRel(f)] || c.IsTestFile(f.Pos()) || core.IsGenerated2(c, f) {
			continue
		}
		k := 0
		core.Instrs(f, func(ins ssa.Instruction) {
			r, ok := ins.(*ssa.Return)
			if !ok {
				return
			}
			for _, res := range r.Results {
				mi, isMI := core.SpilledResult(r, res).(*ssa.MakeInterface)
				if !isMI {
					continue
				}
				if _, isPtr := mi.X.Type().Underlying().(*types.Pointer); !isPtr {
					continue
				}
				n++
				mayNil := false
				var walk func(v ssa.Value, d int)
				seen := map[ssa.Value]bool{}
				walk = func(v ssa.Value, d int) {
					if d > 6 || seen[v] {
						return
					}
					seen[v] = true
					switch x := v.(type) {
					case *ssa.Const:
						if x.IsNil() {
							mayNil = true
						}
					case *ssa.Phi:
						for _, e := range x.Edges {
							walk(e, d+1)
						}
					}
				}
				walk(mi.X, 0)
				if mayNil {
					k++
					l.Bad(rule, fmt.Sprintf("%s:typed-nil#%d", core.SSAName(f), k), c.Rel(r.Pos()), "a nil "+mi.X.Type().String()+" is returned inside a non-nil "+mi.Type().String()+": the caller's nil test passes and the first method call dereferences nil")
				}
			}
		})
	}
	l.Add(core.Obligation{Rule: rule, Key: "returns-examined", Status: core.Discharged, Detail: fmt.Sprintf("%d returns of a pointer inside an interface examined in %v", n, rels)})
}

// checkUnsafeLen (UNSAFE-LEN): unsafe.String / unsafe.Slice over the data of a
// slice or string take that same value's len — not its cap, not another
// length: the view must have exactly the bytes of the original.
func checkUnsafeLen(c *core.Ctx, l *core.Ledger, rule string, rels []string) {
	n := 0
	for _, f := range c.AllFuncs(rels...) {
		if c.IsTestFile(f.Pos()) {
			continue
		}
		core.Instrs(f, func(ins ssa.Instruction) {
			call, ok := ins.(*ssa.Call)
			if !ok {
				return
			}
			bi, isB := call.Call.Value.(*ssa.Builtin)
			if !isB || (bi.Name() != "String" && bi.Name() != "Slice") || len(call.Call.Args) != 2 {
				return
			}
			// the data pointer: SliceData(x) / StringData(x)
			var src ssa.Value
			if dc, isC := call.Call.Args[0].(*ssa.Call); isC {
				if db, isDB := dc.Call.Value.(*ssa.Builtin); isDB && (db.Name() == "SliceData" || db.Name() == "StringData") {
					src = dc.Call.Args[0]
				}
			}
			if src == nil {
				return
			}
			n++
			good := false
			if lc, isC := call.Call.Args[1].(*ssa.Call); isC {
				if lb, isLB := lc.Call.Value.(*ssa.Builtin); isLB && lb.Name() == "len" && lc.Call.Args[0] == src {
					good = true
				}
			}
			l.Check(good, rule, fmt.Sprintf("%s:unsafe.%s#%d", core.SSAName(f), bi.Name(), n), c.Rel(call.Pos()), "the view has the length of the value whose data it aliases", "unsafe."+bi.Name()+" over the data of "+core.Sym(src)+" is given "+core.Sym(call.Call.Args[1])+" as its length instead of len of the same value: the view has other bytes than the original")
		})
	}
	if n == 0 {
		l.Bad(rule, "floor", "", "no unsafe.String/unsafe.Slice over SliceData/StringData found in "+strings.Join(rels, ", ")+" (two confirmed by hand in wire)")
	}
}

// checkStopExact (STOP-EXACT): the end of a struct is the type byte 0 and
// nothing else. Every comparison of a one-byte value read from the input with
// the constant 0 in the reader layer is an equality test; an ordering test
// (<= 0, > 0) makes the bytes 0x80–0xFF end a struct in one decoder and be a
// type error in another.
func checkStopExact(c *core.Ctx, l *core.Ledger, rule string) {
	n := 0
	for _, f := range c.AllFuncs("protocol/binary") {
		if c.IsTestFile(f.Pos()) || codecSide(f) == "write" {
			continue
		}
		k := 0
		core.Instrs(f, func(ins ssa.Instruction) {
			bo, ok := ins.(*ssa.BinOp)
			if !ok {
				return
			}
			switch bo.Op {
			case token.EQL, token.NEQ, token.LSS, token.LEQ, token.GTR, token.GEQ:
			default:
				return
			}
			kv, isK := core.ConstInt(bo.Y)
			if !isK || kv != 0 {
				return
			}
			bt, isB := bo.X.Type().Underlying().(*types.Basic)
			if !isB || (bt.Kind() != types.Int8 && bt.Kind() != types.Uint8) {
				return
			}
			// a byte taken from the input: result of a read method, or an element of the read buffer
			s := core.Sym(bo.X)
			if !(strings.Contains(s, "ReadInt8") || strings.Contains(s, "readByte") || strings.Contains(s, ".buffer[") || strings.Contains(s, "ReadByte")) {
				return
			}
			n++
			if bo.Op != token.EQL && bo.Op != token.NEQ {
				k++
				l.Bad(rule, fmt.Sprintf("%s:byte-vs-0#%d", core.SSAName(f), k), c.Rel(bo.Pos()), "a byte read from the input is compared with 0 by "+bo.Op.String()+": only the byte 0 is the stop marker (0x80–0xFF are negative as int8)")
			}
		})
	}
	l.Add(core.Obligation{Rule: rule, Key: "comparisons-examined", Status: core.Discharged, Detail: fmt.Sprintf("%d comparisons of an input byte with 0 in the reader layer: all are equality tests", n)})
	if n < 2 {
		l.Bad(rule, "floor", "", fmt.Sprintf("only %d comparisons of an input byte with 0 found (ReadFieldBegin and skipStruct confirmed by hand)", n))
	}
}

// checkHashGetter (HASH-KEY): the key under which a primitive is put into the
// membership map of a set or map comparison is the value itself, of its own
// width: for every hashable primitive type code, toHashable (evaluated with
// the code fixed) returns the generic Get() or a getter whose Go type is the
// code's — an i64 keyed by its low 32 bits makes different sets equal.
func checkHashGetter(c *core.Ctx, l *core.Ledger, rule string) {
	f := c.SSAFunc(c.LookupFunc("wire", "toHashable"))
	if f == nil {
		l.Unk(rule, "wire.toHashable", "", "not found")
		return
	}
	wireT := c.Pkg("wire").Types.Scope().Lookup("Type").Type()
	want := map[int64][2]string{2: {"TBool", "bool"}, 3: {"TI8", "int8"}, 4: {"TDouble", "float64"}, 6: {"TI16", "int16"}, 8: {"TI32", "int32"}, 10: {"TI64", "int64"}}
	for code, nt := range want {
		cv := code
		key := "toHashable:" + nt[0]
		paths, fin := c.FiniteEval(f, core.FEOpts{Key: func(v ssa.Value) (core.CVal, bool) {
			if types.Identical(v.Type(), wireT) {
				if _, isC := v.(*ssa.Const); !isC {
					return core.CVal{Kind: core.CInt, I: cv}, true
				}
			}
			return core.CVal{}, false
		}})
		if !fin || len(paths) == 0 {
			l.Unk(rule, key, c.Rel(f.Pos()), "evaluation with the type code fixed did not finish")
			continue
		}
		var bad []string
		for _, p := range paths {
			if p.Ret == nil || len(p.Ret.Results) != 1 {
				if p.Panic != "" {
					bad = append(bad, "panics: "+p.Panic)
				}
				continue
			}
			res := p.Ret.Results[0]
			if mi, isMI := res.(*ssa.MakeInterface); isMI {
				if core.TypeLabel(mi.X.Type()) != nt[1] {
					bad = append(bad, fmt.Sprintf("the key is %s of type %s, the value's type is %s", core.Sym(mi.X), core.TypeLabel(mi.X.Type()), nt[1]))
				}
				continue
			}
			if call, isCall := res.(*ssa.Call); isCall {
				if cal := call.Call.StaticCallee(); cal != nil && cal.Name() == "Get" {
					continue
				}
			}
			bad = append(bad, "the key is "+core.Sym(res))
		}
		l.Check(len(bad) == 0, rule, key, c.Rel(f.Pos()), "keyed by the value itself ("+nt[1]+")", strings.Join(uniq(bad), "; "))
	}
	l.Floor(rule, 6)
}

// checkLookupExact (LOOKUP-EXACT): reference resolution is exact. A Lookup*
// function of package compile matches the name it is given with == or as a
// map key; it does not fold case or otherwise transform names (compileEnum's
// case-insensitive uniqueness check is about declarations, not references).
func checkLookupExact(c *core.Ctx, l *core.Ledger, rule string) {
	n := 0
	for _, f := range c.AllFuncs("compile") {
		if c.IsTestFile(f.Pos()) || f.Parent() != nil {
			continue
		}
		if !strings.HasPrefix(f.Name(), "Lookup") && !strings.HasPrefix(f.Name(), "lookup") {
			continue
		}
		n++
		var bad []string
		for _, g := range core.WithClosures(f) {
			core.Instrs(g, func(ins ssa.Instruction) {
				call, ok := ins.(*ssa.Call)
				if !ok {
					return
				}
				o := core.CalleeObj(call)
				if o == nil || o.Pkg() == nil {
					return
				}
				if o.Pkg().Path() == "strings" || o.Pkg().Path() == "unicode" {
					switch o.Name() {
					case "EqualFold", "ToLower", "ToUpper", "Title", "ToTitle", "TrimSpace", "Trim", "TrimPrefix", "TrimSuffix", "HasPrefix", "HasSuffix", "Contains":
						bad = append(bad, o.Pkg().Name()+"."+o.Name()+" at "+c.Rel(call.Pos()))
					}
				}
			})
		}
		l.Check(len(bad) == 0, rule, core.SSAName(f), c.Rel(f.Pos()), "names are matched exactly", "a reference is resolved by an inexact match ("+strings.Join(bad, ", ")+"): a misspelt reference binds to a definition it does not name")
	}
	l.Floor(rule, 4)
}

// checkImportName (IMPORT-NAME): a path may have been imported under an alias
// (import "x/errors" as errors2 when errors was taken). Asked again for the
// same path, importer.Import must answer with the name recorded in the stored
// import spec: on the edge where the path is found, some return yields the
// found spec's own name, and every other return there is the no-alias case
// (Name == nil).
func checkImportName(c *core.Ctx, l *core.Ledger, rule string) {
	f := c.SSAFunc(c.LookupFunc("gen", "importer.Import"))
	if f == nil {
		l.Unk(rule, "importer.Import", "", "gen.importer.Import not found")
		return
	}
	var lk *ssa.Lookup
	core.Instrs(f, func(ins ssa.Instruction) {
		if x, ok := ins.(*ssa.Lookup); ok && x.CommaOk && lk == nil {
			if _, isMap := x.X.Type().Underlying().(*types.Map); isMap && x.Index == ssa.Value(f.Params[len(f.Params)-1]) {
				lk = x
			}
		}
	})
	if lk == nil {
		l.Unk(rule, "importer.Import", c.Rel(f.Pos()), "no lookup of the path in the import table found")
		return
	}
	var found ssa.Value
	var okEdges []core.Edge
	for _, r := range *lk.Referrers() {
		ex, isEx := r.(*ssa.Extract)
		if !isEx {
			continue
		}
		if ex.Index == 0 {
			found = ex
		} else if ex.Referrers() != nil {
			for _, rr := range *ex.Referrers() {
				if ifi, isIf := rr.(*ssa.If); isIf {
					okEdges = append(okEdges, core.Edge{From: ifi.Block(), To: ifi.Block().Succs[0]})
				}
			}
		}
	}
	usesFound := false
	var why []string
	if found != nil {
		core.Instrs(f, func(ins ssa.Instruction) {
			r, ok := ins.(*ssa.Return)
			if !ok || len(okEdges) == 0 || !core.AllPathsThroughEdges(f, r.Block(), okEdges) {
				return
			}
			if dependsOn(r.Results[0], map[ssa.Value]bool{found: true}, map[ssa.Value]bool{}) {
				usesFound = true
				return
			}
			// a return that does not use the found spec is the no-alias case: under `found.Name == nil`
			nilName := core.GuardEdges(f, func(cm core.Cmp) bool {
				k, isK := cm.Y.(*ssa.Const)
				return cm.Op == token.EQL && isK && k.IsNil() && dependsOn(cm.X, map[ssa.Value]bool{found: true}, map[ssa.Value]bool{})
			})
			if len(nilName) == 0 || !core.AllPathsThroughEdges(f, r.Block(), nilName) {
				why = append(why, "for a path already imported, "+c.Rel(r.Pos())+" answers "+core.Sym(r.Results[0])+" without regard to the alias recorded for it")
			}
		})
	}
	if !usesFound {
		why = append(why, "no return yields the name of the import spec found for the path")
	}
	l.Check(len(why) == 0, rule, "importer.Import", c.Rel(f.Pos()), "an already imported path is referred to by the name recorded for it (its alias when it has one)", strings.Join(uniq(why), "; "))
}

// checkPosLookup (POS-LOOKUP): idl.Info.Pos may use a node as a map key only
// after ast.Pos said the node does not carry its own position — the node
// kinds for which that happens are plain comparable values; list and map
// constants (slices inside: unhashable) carry their position themselves.
func checkPosLookup(c *core.Ctx, l *core.Ledger, rule string) {
	f := c.SSAFunc(c.LookupFunc("idl", "Info.Pos"))
	if f == nil {
		l.Unk(rule, "Info.Pos", "", "idl.Info.Pos not found")
		return
	}
	var posCall *ssa.Call
	core.Instrs(f, func(ins ssa.Instruction) {
		if call, ok := ins.(*ssa.Call); ok && call.Call.StaticCallee() != nil && core.PkgRel(call.Call.StaticCallee()) == "ast" && call.Call.StaticCallee().Name() == "Pos" {
			posCall = call
		}
	})
	var notOK []core.Edge
	if posCall != nil && posCall.Referrers() != nil {
		for _, r := range *posCall.Referrers() {
			if ex, isEx := r.(*ssa.Extract); isEx && ex.Index == 1 && ex.Referrers() != nil {
				for _, rr := range *ex.Referrers() {
					if ifi, isIf := rr.(*ssa.If); isIf {
						notOK = append(notOK, core.Edge{From: ifi.Block(), To: ifi.Block().Succs[1]})
					}
				}
			}
		}
	}
	n := 0
	var why []string
	core.Instrs(f, func(ins ssa.Instruction) {
		lk, ok := ins.(*ssa.Lookup)
		if !ok {
			return
		}
		if _, isI := lk.Index.Type().Underlying().(*types.Interface); !isI {
			return
		}
		n++
		if len(notOK) == 0 || !core.AllPathsThroughEdges(f, lk.Block(), notOK) {
			why = append(why, "the position table is indexed with the node at "+c.Rel(lk.Pos())+" without ast.Pos having answered 'no own position' first: a list or map constant (unhashable) as key panics")
		}
	})
	if n == 0 {
		why = append(why, "no lookup in the position table found")
	}
	l.Check(len(why) == 0, rule, "Info.Pos", c.Rel(f.Pos()), "the table is consulted only for nodes without a position of their own", strings.Join(why, "; "))
}

// checkIndexGuard (INDEX-GUARD): in the hand-written part of idl/internal a
// constant index into a slice whose length depends on the input (lines of a
// doc comment, parts of a split) is read only under a length test that makes
// it valid, on every path. An empty doc block yields zero lines.
func checkIndexGuard(c *core.Ctx, l *core.Ledger, rule string, rels []string) {
	n := 0
	for _, f := range c.AllFuncs(rels...) {
		if c.IsTestFile(f.Pos()) || core.IsGenerated2(c, f) || narrowSkip(c, f) {
			continue
		}
		k := 0
		core.Instrs(f, func(ins ssa.Instruction) {
			var x, idx ssa.Value
			switch ia := ins.(type) {
			case *ssa.IndexAddr:
				x, idx = ia.X, ia.Index
			case *ssa.Index:
				x, idx = ia.X, ia.Index
			default:
				return
			}
			kv, isK := core.ConstInt(idx)
			if !isK {
				return
			}
			switch x.Type().Underlying().(type) {
			case *types.Slice:
			case *types.Basic: // string
			default:
				return
			}
			if okTriv, _ := indexTriviallySafe(x, idx); okTriv {
				return
			}
			// results of strings.Split/SplitN/Fields have at least one element only for Split*: index 0 of Split is fine
			if call, isCall := x.(*ssa.Call); isCall && kv == 0 {
				if o := core.CalleeObj(call); o != nil && o.Pkg() != nil && o.Pkg().Path() == "strings" && strings.HasPrefix(o.Name(), "Split") {
					return
				}
			}
			n++
			root := x
			lenOf := func(v ssa.Value) bool {
				call, isLen := v.(*ssa.Call)
				if !isLen {
					return false
				}
				bi, isB := call.Call.Value.(*ssa.Builtin)
				return isB && bi.Name() == "len" && (call.Call.Args[0] == root || core.Unop(call.Call.Args[0]) == core.Unop(root))
			}
			edges := core.GuardEdges(f, func(cm core.Cmp) bool {
				if !lenOf(cm.X) {
					return false
				}
				nn, isN := core.ConstInt(cm.Y)
				if !isN {
					return false
				}
				switch cm.Op {
				case token.GTR, token.NEQ:
					return nn >= kv && (cm.Op == token.GTR || (nn == 0 && kv == 0))
				case token.GEQ, token.EQL:
					return nn >= kv+1
				}
				return false
			})
			if len(edges) > 0 && core.AllPathsThroughEdges(f, ins.Block(), edges) {
				return
			}
			// inside a range over the same slice the element exists
			if ok2, _ := indexGuarded(f, x, idx, ins.Block()); ok2 {
				return
			}
			k++
			l.Bad(rule, fmt.Sprintf("%s:index%d#%d", core.SSAName(f), kv, k), c.Rel(ins.Pos()), fmt.Sprintf("element %d of %s is read without a length test that makes it exist on every path: an empty input panics", kv, core.Sym(x)))
		})
	}
	l.Add(core.Obligation{Rule: rule, Key: "sites-examined", Status: core.Discharged, Detail: fmt.Sprintf("%d constant-index reads of input-dependent slices and strings examined in %v", n, rels)})
}

// checkExceptionsPath (REQUEST exceptions): the exceptions a function declares
// are described to plugins whenever there are any — whether or not the
// function returns a value. In buildFunction the call that builds the
// description from ResultSpec.Exceptions may be conditional only on the
// result specification being present, on the list being non-empty and on
// earlier steps not having failed; a condition on the return type cuts the
// exceptions of void functions off.
func checkExceptionsPath(c *core.Ctx, l *core.Ledger, rule string) {
	f := c.SSAFunc(c.LookupFunc("gen", "generateServiceBuilder.buildFunction"))
	if f == nil {
		l.Unk(rule, "buildFunction.exceptions", "", "gen.generateServiceBuilder.buildFunction not found")
		return
	}
	var site ssa.Instruction
	core.Instrs(f, func(ins ssa.Instruction) {
		call, ok := ins.(*ssa.Call)
		if !ok {
			return
		}
		for _, a := range call.Call.Args {
			if fld, _ := core.LoadedField(a); fld != nil && fld.Name() == "Exceptions" {
				site = ins
			}
		}
	})
	if site == nil {
		l.Bad(rule, "buildFunction.exceptions", c.Rel(f.Pos()), "no call that builds a description from ResultSpec.Exceptions found: declared exceptions are not sent to plugins")
		return
	}
	var bad []string
	conds := nestingConds(site.Block())
	for _, cc := range controlConds(f, site.Block()) {
		conds = append(conds, cc)
	}
	for _, cd := range uniq(conds) {
		t := strings.TrimPrefix(cd, "!")
		switch {
		case strings.Contains(t, "Exceptions"):
		case strings.Contains(t, "ResultSpec") && !strings.Contains(t, "ReturnType"):
		case strings.HasSuffix(t, "!=c:nil)") && strings.Contains(t, "#"): // error guard of an earlier call
		default:
			bad = append(bad, cd)
		}
	}
	l.Check(len(bad) == 0, rule, "buildFunction.exceptions", c.Rel(site.Pos()), "conditional only on the presence of a result specification and of exceptions", "the exceptions of a function are described only under "+strings.Join(bad, " & ")+": functions for which that does not hold (void functions with a throws clause) lose them in the plugin request")
}

// constAccept: for every kind of constant the root type kinds its Link accepts
// on the pinned tree, confirmed by reading compile/constant_value.go together
// with gen/constant.go (which renders each constant kind for exactly these
// types). Widening the compiler's acceptance without the generator following
// yields programs that compile and generate Go that does not build.
var constAccept = map[string][]string{
	"ConstantBool":      {"BoolSpec"},
	"ConstantString":    {"StringSpec"},
	"ConstantDouble":    {"DoubleSpec"},
	"ConstantInt":       {"BoolSpec", "DoubleSpec", "EnumSpec", "I16Spec", "I32Spec", "I64Spec", "I8Spec"},
	"ConstantList":      {"ListSpec", "SetSpec"},
	"ConstantSet":       {"SetSpec"},
	"ConstantMap":       {"MapSpec", "StructSpec"},
	"ConstantStruct":    {"StructSpec"},
	"EnumItemReference": {},
}

// checkConstAccept (CONST-ACCEPT): the type kinds each constant kind is
// accepted for (positive type tests on the success paths of its Link) are the
// frozen ones.
func checkConstAccept(c *core.Ctx, l *core.Ledger, rule string) {
	label := func(ifi *ssa.If, idx int) string {
		cond := ifi.Cond
		negated := idx == 1
		for {
			if u, ok := cond.(*ssa.UnOp); ok && u.Op == token.NOT {
				cond, negated = u.X, !negated
				continue
			}
			break
		}
		if x, ok := cond.(*ssa.Extract); ok {
			if ta, isTA := x.Tuple.(*ssa.TypeAssert); isTA && x.Index == 1 {
				s := "is(" + core.RecvTypeName(ta.AssertedType) + ")"
				if negated {
					return "!" + s
				}
				return s
			}
		}
		return ""
	}
	for kind, want := range constAccept {
		f := c.SSAFunc(c.LookupFunc("compile", kind+".Link"))
		if f == nil {
			l.Unk(rule, kind, "", "compile."+kind+".Link not found")
			continue
		}
		seqs, ok := core.SuccessSeqs(f, core.SeqOpts{EdgeLabel: label, Inline: inlineHelpers(), Classify: func(in ssa.Instruction, inLoop bool) []string { return nil }})
		if !ok {
			l.Unk(rule, kind, c.Rel(f.Pos()), "too many paths")
			continue
		}
		got := map[string]bool{}
		for _, s := range seqs {
			for _, e := range s {
				if strings.HasPrefix(e, "is(") && strings.HasSuffix(e, "Spec)") {
					got[strings.TrimSuffix(strings.TrimPrefix(e, "is("), ")")] = true
				}
			}
		}
		var gl []string
		for k := range got {
			gl = append(gl, k)
		}
		sortStringsInPlace(gl)
		if len(want) == 0 {
			l.Ok(rule, kind, c.Rel(f.Pos()), "no type-kind test on success paths (identity with the enum decides)")
			continue
		}
		l.Check(strings.Join(gl, ",") == strings.Join(want, ","), rule, kind, c.Rel(f.Pos()), "accepted for "+strings.Join(want, ", ")+" only", "compile."+kind+".Link succeeds under type tests {"+strings.Join(gl, ", ")+"}, the generator renders this constant kind for {"+strings.Join(want, ", ")+"}: a program outside the latter compiles into Go that does not build")
	}
	l.Floor(rule, 8)
}

func sortStringsInPlace(s []string) {
	for i := 1; i < len(s); i++ {
		for j := i; j > 0 && s[j] < s[j-1]; j-- {
			s[j], s[j-1] = s[j-1], s[j]
		}
	}
}

// checkAppendAlias (APPEND-ALIAS): a function that returns append(p, …) where
// p is its own slice parameter or receiver hands back a slice that may share
// p's backing array: a later append through either one overwrites the other's
// elements. A "clone with one more element" helper must append to a slice it
// made itself.
func checkAppendAlias(c *core.Ctx, l *core.Ledger, rule string, rels []string) {
	n := 0
	for _, f := range c.AllFuncs(rels...) {
		if c.IsTestFile(f.Pos()) || core.IsGenerated2(c, f) {
			continue
		}
		k := 0
		core.Instrs(f, func(ins ssa.Instruction) {
			call, ok := ins.(*ssa.Call)
			if !ok {
				return
			}
			bi, isB := call.Call.Value.(*ssa.Builtin)
			if !isB || bi.Name() != "append" || len(call.Call.Args) == 0 {
				return
			}
			p, isP := call.Call.Args[0].(*ssa.Parameter)
			if !isP {
				return
			}
			n++
			// does the result reach a return (directly or through further appends / phis)?
			returned := false
			seen := map[ssa.Value]bool{}
			var walk func(v ssa.Value, d int)
			walk = func(v ssa.Value, d int) {
				if d > 6 || seen[v] || v.Referrers() == nil {
					return
				}
				seen[v] = true
				for _, r := range *v.Referrers() {
					switch x := r.(type) {
					case *ssa.Return:
						returned = true
					case *ssa.Phi:
						walk(x, d+1)
					case *ssa.Call:
						if b2, isB2 := x.Call.Value.(*ssa.Builtin); isB2 && b2.Name() == "append" && x.Call.Args[0] == v {
							walk(x, d+1)
						}
					}
				}
			}
			walk(call, 0)
			if returned {
				k++
				l.Bad(rule, fmt.Sprintf("%s:append-to-param#%d", core.SSAName(f), k), c.Rel(call.Pos()), "append("+p.Name()+", …) is returned: the result may share the backing array of the caller's "+p.Name()+", so two results built from the same "+p.Name()+" overwrite each other's last element")
			}
		})
	}
	l.Add(core.Obligation{Rule: rule, Key: "appends-examined", Status: core.Discharged, Detail: fmt.Sprintf("%d appends to a slice parameter examined in %v: none is returned", n, rels)})
}

// checkNameKey (NAME-KEY): the names of services (and modules) are unique per
// Thrift file only. A table of the plugin-request builder that is looked up or
// filled with a key made from the Name of a *compile.ServiceSpec or
// *compile.Module alone — not from its file as well, and not inside a per-file
// table — confuses same-named definitions of two files: the second gets the
// first one's id.
func checkNameKey(c *core.Ctx, l *core.Ledger, rule string) {
	n := 0
	for _, f := range c.AllFuncs("gen") {
		if c.IsTestFile(f.Pos()) || core.IsGenerated2(c, f) || len(f.Blocks) == 0 {
			continue
		}
		specParam := -1
		for i, p := range f.Params {
			if pt, ok := p.Type().Underlying().(*types.Pointer); ok {
				if nm, isN := pt.Elem().(*types.Named); isN && nm.Obj().Pkg() != nil && strings.HasSuffix(nm.Obj().Pkg().Path(), "/compile") && (nm.Obj().Name() == "ServiceSpec" || nm.Obj().Name() == "Module") {
					specParam = i
				}
			}
		}
		if specParam < 0 {
			continue
		}
		k := 0
		core.Instrs(f, func(ins ssa.Instruction) {
			var m, key ssa.Value
			switch x := ins.(type) {
			case *ssa.Lookup:
				if _, isMap := x.X.Type().Underlying().(*types.Map); !isMap {
					return
				}
				m, key = x.X, x.Index
			case *ssa.MapUpdate:
				m, key = x.Map, x.Key
			default:
				return
			}
			if _, isLocal := m.(*ssa.MakeMap); isLocal {
				return // a map made in this call holds the definitions of one call only
			}
			ks := core.Sym(key)
			tag := fmt.Sprintf("$%d.Name", specParam)
			if !strings.Contains(ks, tag) {
				return
			}
			n++
			byFile := strings.Contains(ks, "ThriftFile") || strings.Contains(ks, "ThriftPath")
			ms := core.Sym(m)
			nested := strings.Contains(ms, "ThriftFile") || strings.Contains(ms, "ThriftPath")
			if !nested {
				// the map value may come from an earlier per-file lookup held in a local
				if ex, isEx := m.(*ssa.Extract); isEx {
					if lk, isLk := ex.Tuple.(*ssa.Lookup); isLk {
						s2 := core.Sym(lk.Index)
						nested = strings.Contains(s2, "ThriftFile") || strings.Contains(s2, "ThriftPath")
					}
				}
				if ph, isPhi := m.(*ssa.Phi); isPhi {
					for _, e := range ph.Edges {
						s2 := core.Sym(e)
						if strings.Contains(s2, "ThriftFile") || strings.Contains(s2, "ThriftPath") {
							nested = true
						}
					}
				}
			}
			if !byFile && !nested {
				k++
				l.Bad(rule, fmt.Sprintf("%s:name-key#%d", core.SSAName(f), k), c.Rel(ins.Pos()), "a table is keyed by "+ks+" alone: definitions of two files that share a name are taken for one")
			}
		})
	}
	l.Add(core.Obligation{Rule: rule, Key: "tables-examined", Status: core.Discharged, Detail: fmt.Sprintf("%d table accesses keyed by the name of a service or module specification in gen: each also keyed by, or nested under, the file", n)})
	if n == 0 {
		l.Bad(rule, "floor", "", "no table keyed by a specification's name found in gen (the service id table of the request builder confirmed by hand)")
	}
}

// checkReaderRows (RSEQ): the success-path read sequence of every StreamReader
// primitive equals its Thrift binary-protocol row — each value consumes exactly
// its own bytes, which is what skipping an unknown field and decoding the next
// one rest on.
func checkReaderRows(c *core.Ctx, l *core.Ledger, rule string) {
	m := newWireModel(c)
	if m.rprim == nil {
		l.Unk(rule, "primitive", "", "no StreamReader method calling io.ReadFull(field, param) was found")
		return
	}
	n := 0
	for name, want := range thriftReaderRows {
		f := m.method("StreamReader", name)
		if f == nil {
			l.Unk(rule, name, "", "method StreamReader."+name+" not found")
			continue
		}
		n++
		got := dedupShapes(shapeSeqs(m.RSeqs(f)))
		l.Add(core.Obligation{Rule: rule, Key: "StreamReader." + name, Pos: c.Rel(f.Pos()), Status: st(got == dedupShapes(want)),
			Detail: fmt.Sprintf("success-path read sequence %s; Thrift row %s", got, dedupShapes(want))})
	}
	l.Floor(rule, 18)
}

// checkParsedFieldID (PARSE-ID): the parser hands the compiler the field id as
// written. In the grammar actions (the generated y.go is what runs), whenever
// a fieldIdentifier value is built, its ID is the scanned number converted to
// int and nothing else, and its Unset flag is a constant — true only in the
// production without a number. An Unset computed from the number (0 taken for
// "missing") renumbers an explicit id.
func checkParsedFieldID(c *core.Ctx, l *core.Ledger, rule string) {
	f := c.SSAFunc(c.LookupFunc("idl/internal", "yyParserImpl.Parse"))
	if f == nil {
		l.Unk(rule, "field_identifier", "", "idl/internal yyParserImpl.Parse not found")
		return
	}
	n := 0
	var bad []string
	core.Instrs(f, func(ins ssa.Instruction) {
		st, ok := ins.(*ssa.Store)
		if !ok {
			return
		}
		fa, isFA := st.Addr.(*ssa.FieldAddr)
		if !isFA {
			return
		}
		pt, isP := fa.X.Type().Underlying().(*types.Pointer)
		if !isP {
			return
		}
		nm, isN := pt.Elem().(*types.Named)
		if !isN || nm.Obj().Name() != "fieldIdentifier" {
			return
		}
		fld := core.FieldOf(fa)
		switch fld.Name() {
		case "Unset":
			n++
			if _, isK := st.Val.(*ssa.Const); !isK {
				bad = append(bad, fmt.Sprintf("Unset is computed (a %T, not a constant) at %s", st.Val, c.Rel(st.Pos())))
			}
		case "ID":
			n++
			v := st.Val
			for {
				if cv, isCv := v.(*ssa.Convert); isCv {
					v = cv.X
					continue
				}
				break
			}
			switch v.(type) {
			case *ssa.Const, *ssa.UnOp, *ssa.Field, *ssa.Extract:
			default:
				bad = append(bad, fmt.Sprintf("ID is computed (a %T) at %s", v, c.Rel(st.Pos())))
			}
		}
	})
	if n < 2 {
		l.Bad(rule, "field_identifier", c.Rel(f.Pos()), fmt.Sprintf("only %d stores into a fieldIdentifier found in the parser (two productions confirmed by hand)", n))
		return
	}
	l.Check(len(bad) == 0, rule, "field_identifier", c.Rel(f.Pos()), fmt.Sprintf("%d stores: the id is the scanned number, the unset flag a constant", n), "the field id handed to the compiler is not the number as written: "+strings.Join(bad, "; "))
}
