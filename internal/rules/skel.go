package rules

import (
	"bytes"
	"fmt"
	"go/ast"
	"go/printer"
	"go/token"
	"regexp"
	"sort"
	"strings"

	"verif/internal/core"
	"verif/internal/tmpl"
)

// Helpers for rules evaluated on template skeletons (abstract expansions).

var reElem = regexp.MustCompile(`ε\d+[\pL\pN_]*?ˑ(Fields|ArgsSpec|Exceptions|Items)`)

func nodeStr(fset *token.FileSet, n ast.Node) string {
	var b bytes.Buffer
	printer.Fprint(&b, fset, n)
	s := b.String()
	s = strings.Join(strings.Fields(s), " ")
	return s
}

// skelFunc finds a function or method declaration by name in a skeleton.
func skelFunc(v *tmpl.Variant, name string) *ast.FuncDecl {
	if v.File == nil {
		return nil
	}
	for _, d := range v.File.Decls {
		if fd, ok := d.(*ast.FuncDecl); ok && fd.Name.Name == name {
			return fd
		}
	}
	return nil
}

// elems lists the abstract range elements (ε1ˑFields, ...) that occur in a variant.
func variantElems(v *tmpl.Variant) []string {
	set := map[string]bool{}
	for _, m := range reElem.FindAllString(v.Src, -1) {
		set[m] = true
	}
	var out []string
	for k := range set {
		out = append(out, k)
	}
	sort.Strings(out)
	return out
}

func atomOf(v *tmpl.Variant, key string) bool { return v.Atoms[key] }

func elemRequired(v *tmpl.Variant, e string) bool { return v.Atoms[e+"ˑRequired"] }
func elemHasDefault(v *tmpl.Variant, e string) bool {
	return v.Atoms["ƒisNotNilʃ"+e+"ˑDefault"]
}

// conjuncts splits a && b && c.
func conjuncts(e ast.Expr) []ast.Expr {
	e = ast.Unparen(e)
	if b, ok := e.(*ast.BinaryExpr); ok && b.Op == token.LAND {
		return append(conjuncts(b.X), conjuncts(b.Y)...)
	}
	return []ast.Expr{e}
}

// isErrReturnIf: "if err != nil { return err }" or "if err != nil { return <zero>, err }".
func isErrReturnIf(fset *token.FileSet, s ast.Stmt) bool {
	is, ok := s.(*ast.IfStmt)
	if !ok || is.Init != nil || is.Else != nil || len(is.Body.List) != 1 {
		return false
	}
	if nodeStr(fset, is.Cond) != "err != nil" {
		return false
	}
	r, ok := is.Body.List[0].(*ast.ReturnStmt)
	if !ok || len(r.Results) == 0 {
		return false
	}
	return nodeStr(fset, r.Results[len(r.Results)-1]) == "err"
}

// isCheckedCall: "if err := X; err != nil { return err }" → returns X.
func isCheckedCall(fset *token.FileSet, s ast.Stmt) (string, bool) {
	is, ok := s.(*ast.IfStmt)
	if !ok || is.Init == nil || is.Else != nil || len(is.Body.List) != 1 {
		return "", false
	}
	as, ok := is.Init.(*ast.AssignStmt)
	if !ok || len(as.Rhs) != 1 {
		return "", false
	}
	if nodeStr(fset, is.Cond) != "err != nil" {
		return "", false
	}
	r, ok := is.Body.List[0].(*ast.ReturnStmt)
	if !ok || len(r.Results) == 0 || nodeStr(fset, r.Results[len(r.Results)-1]) != "err" {
		return "", false
	}
	lhs := ""
	for i, l := range as.Lhs {
		if i > 0 {
			lhs += ","
		}
		lhs += nodeStr(fset, l)
	}
	return lhs + as.Tok.String() + nodeStr(fset, as.Rhs[0]), true
}

// isErrorReturn: statement returns a freshly built error (errors.New / fmt.Errorf).
func isNewErrorReturn(fset *token.FileSet, s ast.Stmt) bool {
	r, ok := s.(*ast.ReturnStmt)
	if !ok || len(r.Results) == 0 {
		return false
	}
	last := nodeStr(fset, r.Results[len(r.Results)-1])
	return strings.HasPrefix(last, "errors.New(") || strings.HasPrefix(last, "fmt.Errorf(")
}

// decodeArm is one field arm of a struct decoder.
type decodeArm struct {
	Elem      string
	IDGuard   bool
	TypeGuard bool
	Assign    string // call name: decode, decodePtr, fromWire, fromWirePtr
	Target    string // assigned field expression
	ErrCheck  bool
	IsSet     []string
	Extra     []string
}

type decoderModel struct {
	Arms        []decodeArm
	HasDefault  bool
	DefaultBody []string
	LoopTail    []string
	Pre         []string
	Post        []string
	Problems    []string
}

func (m *decoderModel) problem(format string, args ...interface{}) {
	m.Problems = append(m.Problems, fmt.Sprintf(format, args...))
}

var reAssignCall = regexp.MustCompile(`ƒ(decodePtr|decode|fromWirePtr|fromWire)\(`)

// parseArmBody extracts assignment / error check / isSet updates of an arm.
func parseArmBody(fset *token.FileSet, stmts []ast.Stmt, arm *decodeArm) {
	for _, s := range stmts {
		str := nodeStr(fset, s)
		switch x := s.(type) {
		case *ast.ExprStmt:
			if m := reAssignCall.FindStringSubmatch(str); m != nil && strings.HasPrefix(str, "ƒ"+m[1]+"(") {
				arm.Assign = m[1]
				if call, ok := x.X.(*ast.CallExpr); ok && len(call.Args) >= 2 {
					arm.Target = nodeStr(fset, call.Args[1])
				}
				continue
			}
			arm.Extra = append(arm.Extra, str)
		case *ast.AssignStmt:
			if len(x.Rhs) == 1 {
				rhs := nodeStr(fset, x.Rhs[0])
				if m := reAssignCall.FindStringSubmatch(rhs); m != nil && strings.HasPrefix(rhs, "ƒ"+m[1]+"(") && len(x.Lhs) == 2 && nodeStr(fset, x.Lhs[1]) == "err" {
					arm.Assign = m[1]
					arm.Target = nodeStr(fset, x.Lhs[0])
					continue
				}
				if rhs == "true" && len(x.Lhs) == 1 {
					arm.IsSet = append(arm.IsSet, nodeStr(fset, x.Lhs[0]))
					continue
				}
			}
			arm.Extra = append(arm.Extra, str)
		case *ast.IfStmt:
			if isErrReturnIf(fset, s) {
				arm.ErrCheck = true
				continue
			}
			arm.Extra = append(arm.Extra, str)
		default:
			arm.Extra = append(arm.Extra, str)
		}
	}
}

// postClauses normalises the statements that follow the field loop.
func postClauses(fset *token.FileSet, stmts []ast.Stmt) []string {
	var out []string
	for _, s := range stmts {
		str := nodeStr(fset, s)
		switch x := s.(type) {
		case *ast.ReturnStmt:
			if str == "return nil" {
				out = append(out, "ok")
			} else {
				out = append(out, "return:"+str)
			}
		case *ast.AssignStmt:
			if strings.HasSuffix(str, ":= 0") {
				out = append(out, "count:=0")
			} else {
				out = append(out, "?:"+str)
			}
		case *ast.IfStmt:
			cond := nodeStr(fset, x.Cond)
			if call, ok := isCheckedCall(fset, s); ok {
				out = append(out, "check:"+call)
				continue
			}
			if x.Init != nil || x.Else != nil || len(x.Body.List) != 1 {
				out = append(out, "?:"+str)
				continue
			}
			body := nodeStr(fset, x.Body.List[0])
			switch {
			case strings.HasSuffix(cond, "== nil") && strings.Contains(body, "= ƒconstantValuePtr("):
				lhs := strings.TrimSuffix(cond, " == nil")
				if strings.HasPrefix(body, lhs+" = ƒconstantValuePtr(") {
					out = append(out, "default:"+lhs+"←"+strings.TrimPrefix(body, lhs+" = "))
				} else {
					out = append(out, "?:"+str)
				}
			case strings.HasPrefix(cond, "!") && isNewErrorReturn(fset, x.Body.List[0]):
				out = append(out, "required:"+strings.TrimPrefix(cond, "!"))
			case strings.HasSuffix(cond, "!= nil") && strings.HasSuffix(body, "++"):
				out = append(out, "count:"+strings.TrimSuffix(cond, " != nil"))
			case (strings.HasSuffix(cond, "> 1") || strings.HasSuffix(cond, "!= 1")) && isNewErrorReturn(fset, x.Body.List[0]):
				out = append(out, "union:"+cond[strings.LastIndex(cond[:len(cond)-2], " ")+1:])
			default:
				out = append(out, "?:"+str)
			}
		case *ast.DeclStmt:
			out = append(out, "decl:"+str)
		default:
			out = append(out, "?:"+str)
		}
	}
	return out
}

// expectedPost computes the post-loop clauses the schema requires for a variant.
func expectedPost(v *tmpl.Variant, recv string) []string {
	var out []string
	els := variantElems(v)
	if !v.Atoms["lenʃδˑFields"] {
		els = nil
	}
	for _, e := range els {
		f := recv + ".ƒgoNameʃ" + e
		switch {
		case elemHasDefault(v, e):
			out = append(out, "default:"+f+"←ƒconstantValuePtr("+e+"ˑDefault, "+e+"ˑType)")
		case elemRequired(v, e):
			out = append(out, "required:"+e+"ˑNameIsSet")
		}
	}
	if v.Atoms["δˑIsUnion"] && len(els) > 0 {
		out = append(out, "count:=0")
		for _, e := range els {
			out = append(out, "count:"+recv+".ƒgoNameʃ"+e)
		}
		if v.Atoms["δˑAllowEmptyUnion"] {
			out = append(out, "union:> 1")
		} else {
			out = append(out, "union:!= 1")
		}
	}
	out = append(out, "ok")
	return out
}

func recvName(fd *ast.FuncDecl) string {
	if fd.Recv != nil && len(fd.Recv.List) > 0 && len(fd.Recv.List[0].Names) > 0 {
		return fd.Recv.List[0].Names[0].Name
	}
	return ""
}

// parseStreamDecoder models the Decode method skeleton.
func parseStreamDecoder(v *tmpl.Variant) *decoderModel {
	m := &decoderModel{}
	fd := skelFunc(v, "Decode")
	if fd == nil {
		m.problem("no Decode method in skeleton")
		return m
	}
	fset := v.Fset
	var loop *ast.ForStmt
	loopIdx := -1
	for i, s := range fd.Body.List {
		if fs, ok := s.(*ast.ForStmt); ok && loop == nil {
			loop = fs
			loopIdx = i
		}
	}
	if loop == nil {
		m.problem("no field loop")
		return m
	}
	for _, s := range fd.Body.List[:loopIdx] {
		if call, ok := isCheckedCall(fset, s); ok {
			m.Pre = append(m.Pre, "check:"+call)
		} else if isErrReturnIf(fset, s) {
			m.Pre = append(m.Pre, "errcheck")
		} else {
			m.Pre = append(m.Pre, nodeStr(fset, s))
		}
	}
	if len(loop.Body.List) == 0 {
		m.problem("empty loop body")
		return m
	}
	sw, ok := loop.Body.List[0].(*ast.SwitchStmt)
	if !ok {
		m.problem("loop does not start with the field switch")
		return m
	}
	for _, st := range sw.Body.List {
		cc := st.(*ast.CaseClause)
		if cc.List == nil {
			m.HasDefault = true
			for _, b := range cc.Body {
				if call, ok := isCheckedCall(fset, b); ok {
					m.DefaultBody = append(m.DefaultBody, "check:"+call)
				} else {
					m.DefaultBody = append(m.DefaultBody, nodeStr(fset, b))
				}
			}
			continue
		}
		arm := decodeArm{}
		if len(cc.List) != 1 {
			m.problem("case with %d expressions", len(cc.List))
			continue
		}
		for _, cj := range conjuncts(cc.List[0]) {
			s := nodeStr(fset, cj)
			if mm := reElem.FindString(s); mm != "" {
				if arm.Elem == "" {
					arm.Elem = mm
				} else if arm.Elem != mm {
					m.problem("arm guards mix fields %s and %s", arm.Elem, mm)
				}
			}
			switch {
			case strings.HasSuffix(s, ".ID == "+arm.Elem+"ˑID"):
				arm.IDGuard = true
			case strings.HasSuffix(s, ".Type == ƒtypeCode("+arm.Elem+"ˑType)"):
				arm.TypeGuard = true
			default:
				arm.Extra = append(arm.Extra, "guard:"+s)
			}
		}
		parseArmBody(fset, cc.Body, &arm)
		m.Arms = append(m.Arms, arm)
	}
	for _, s := range loop.Body.List[1:] {
		if call, ok := isCheckedCall(fset, s); ok {
			m.LoopTail = append(m.LoopTail, call)
		} else {
			m.LoopTail = append(m.LoopTail, "?:"+nodeStr(fset, s))
		}
	}
	m.Post = postClauses(fset, fd.Body.List[loopIdx+1:])
	return m
}

// parseWireDecoder models the FromWire method skeleton.
func parseWireDecoder(v *tmpl.Variant) *decoderModel {
	m := &decoderModel{}
	fd := skelFunc(v, "FromWire")
	if fd == nil {
		m.problem("no FromWire method in skeleton")
		return m
	}
	fset := v.Fset
	var loop *ast.RangeStmt
	loopIdx := -1
	for i, s := range fd.Body.List {
		if rs, ok := s.(*ast.RangeStmt); ok && loop == nil {
			loop = rs
			loopIdx = i
		}
	}
	if loop == nil {
		m.problem("no field loop")
		return m
	}
	for _, s := range fd.Body.List[:loopIdx] {
		m.Pre = append(m.Pre, nodeStr(fset, s))
	}
	if !strings.HasSuffix(nodeStr(fset, loop.X), ".GetStruct().Fields") {
		m.problem("field loop does not range over the struct's fields: %s", nodeStr(fset, loop.X))
	}
	fieldVar := nodeStr(fset, loop.Value)
	if len(loop.Body.List) != 1 {
		m.problem("loop body has %d statements", len(loop.Body.List))
		return m
	}
	sw, ok := loop.Body.List[0].(*ast.SwitchStmt)
	if !ok || sw.Tag == nil || nodeStr(fset, sw.Tag) != fieldVar+".ID" {
		m.problem("loop body is not a switch on the field id")
		return m
	}
	for _, st := range sw.Body.List {
		cc := st.(*ast.CaseClause)
		if cc.List == nil {
			m.HasDefault = true
			for _, b := range cc.Body {
				m.DefaultBody = append(m.DefaultBody, nodeStr(fset, b))
			}
			continue
		}
		arm := decodeArm{}
		if len(cc.List) == 1 {
			s := nodeStr(fset, cc.List[0])
			arm.Elem = reElem.FindString(s)
			arm.IDGuard = s == arm.Elem+"ˑID"
		}
		if len(cc.Body) != 1 {
			arm.Extra = append(arm.Extra, fmt.Sprintf("%d statements in case", len(cc.Body)))
			m.Arms = append(m.Arms, arm)
			continue
		}
		is, ok := cc.Body[0].(*ast.IfStmt)
		if !ok || is.Init != nil {
			arm.Extra = append(arm.Extra, "case body is not a type-guarded if")
			m.Arms = append(m.Arms, arm)
			continue
		}
		if is.Else != nil {
			arm.Extra = append(arm.Extra, "else:"+nodeStr(fset, is.Else))
		}
		cond := nodeStr(fset, is.Cond)
		arm.TypeGuard = cond == fieldVar+".Value.Type() == ƒtypeCode("+arm.Elem+"ˑType)"
		if !arm.TypeGuard {
			arm.Extra = append(arm.Extra, "guard:"+cond)
		}
		parseArmBody(fset, is.Body.List, &arm)
		m.Arms = append(m.Arms, arm)
	}
	m.Post = postClauses(fset, fd.Body.List[loopIdx+1:])
	return m
}

// armSummary renders an arm for comparison between the two decoding paths.
func (a decodeArm) summary() string {
	kind := "optional"
	if a.Assign == "decode" || a.Assign == "fromWire" {
		kind = "required"
	}
	sets := append([]string{}, a.IsSet...)
	sort.Strings(sets)
	return fmt.Sprintf("%s id=%v type=%v %s→%s err=%v set=%v extra=%v", a.Elem, a.IDGuard, a.TypeGuard, kind, a.Target, a.ErrCheck, sets, a.Extra)
}

var _ = core.ModPath
