package rules

import (
	"fmt"
	"go/ast"
	"sort"
	"strings"

	"verif/internal/tmpl"
)

// encField models how one field is serialised by a struct encoder skeleton.
type encField struct {
	Elem       string
	WriteFn    string // toWire, toWirePtr, encode, encodePtr
	Value      string // expression written
	Guards     []string
	NilError   bool   // "if F == nil { return error }" precedes the write
	DefaultVar string // variable holding F-or-default
	DefaultOK  bool   // DefaultVar := F; if DefaultVar == nil { DefaultVar = constantValuePtr(e.Default, e.Type) }
	HeaderID   string
	HeaderType string
	ErrChecked bool
	Problems   []string
}

type encoderModel struct {
	Fields    []*encField
	Union     string // "", "!= 1", "> 1"
	UnionVar  string
	Counted   []string // fields counted for the union check (stream path)
	Begin     bool
	End       bool
	Problems  []string
	ErrExits  int
	OtherErrs []string
}

func (f *encField) summary() string {
	g := append([]string{}, f.Guards...)
	return fmt.Sprintf("%s write=%s(%s) guards=%v nilErr=%v default=%v hdr=(%s,%s) errcheck=%v", f.Elem, strings.TrimSuffix(f.WriteFn, "Ptr"), f.Value, g, f.NilError, f.DefaultOK, f.HeaderID, f.HeaderType, f.ErrChecked)
}

// parseEncoder models ToWire (stream=false) or Encode (stream=true).
func parseEncoder(v *tmpl.Variant, stream bool) *encoderModel {
	m := &encoderModel{}
	name := "ToWire"
	if stream {
		name = "Encode"
	}
	fd := skelFunc(v, name)
	if fd == nil {
		m.Problems = append(m.Problems, "no "+name+" method in skeleton")
		return m
	}
	fset := v.Fset
	recv := recvName(fd)
	byElem := map[string]*encField{}
	get := func(e string) *encField {
		if byElem[e] == nil {
			byElem[e] = &encField{Elem: e}
			m.Fields = append(m.Fields, byElem[e])
		}
		return byElem[e]
	}
	// defaults: X := F ; if X == nil { X = constantValuePtr(...) }
	defVar := map[string]string{} // var -> elem
	var walk func(stmts []ast.Stmt, guards []string)
	walk = func(stmts []ast.Stmt, guards []string) {
		for i, s := range stmts {
			str := nodeStr(fset, s)
			switch x := s.(type) {
			case *ast.AssignStmt:
				if len(x.Lhs) == 1 && len(x.Rhs) == 1 && x.Tok.String() == ":=" {
					rhs := nodeStr(fset, x.Rhs[0])
					if e := reElem.FindString(rhs); e != "" && rhs == recv+".ƒgoNameʃ"+e {
						defVar[nodeStr(fset, x.Lhs[0])] = e
						get(e).DefaultVar = nodeStr(fset, x.Lhs[0])
						continue
					}
					if strings.HasSuffix(str, ":= 0") {
						m.UnionVar = nodeStr(fset, x.Lhs[0])
						continue
					}
				}
				// w, err = toWire(...)
				if len(x.Rhs) == 1 {
					if call, ok := x.Rhs[0].(*ast.CallExpr); ok {
						fn := nodeStr(fset, call.Fun)
						if (fn == "ƒtoWire" || fn == "ƒtoWirePtr") && len(call.Args) == 2 {
							e := reElem.FindString(nodeStr(fset, call.Args[0]))
							f := get(e)
							f.WriteFn = strings.TrimPrefix(fn, "ƒ")
							f.Value = nodeStr(fset, call.Args[1])
							f.Guards = append([]string{}, guards...)
							if i+1 < len(stmts) && isErrReturnIf(fset, stmts[i+1]) {
								f.ErrChecked = true
							}
							continue
						}
					}
					// fields[i] = wire.Field{ID: X, Value: w}
					if cl, ok := x.Rhs[0].(*ast.CompositeLit); ok && strings.HasSuffix(nodeStr(fset, cl.Type), ".Field") {
						id := ""
						for _, el := range cl.Elts {
							if kv, ok := el.(*ast.KeyValueExpr); ok && nodeStr(fset, kv.Key) == "ID" {
								id = nodeStr(fset, kv.Value)
							}
						}
						if e := reElem.FindString(id); e != "" {
							get(e).HeaderID = id
							get(e).HeaderType = "(from value)"
						}
						continue
					}
				}
			case *ast.IfStmt:
				cond := nodeStr(fset, x.Cond)
				// checked call forms (stream)
				if call, ok := isCheckedCall(fset, s); ok {
					switch {
					case strings.HasSuffix(call, ".WriteStructBegin()"):
						m.Begin = true
					case strings.Contains(call, ".WriteFieldBegin("):
						// header literal
						as := x.Init.(*ast.AssignStmt)
						if c2, ok := as.Rhs[0].(*ast.CallExpr); ok && len(c2.Args) == 1 {
							if cl, ok := c2.Args[0].(*ast.CompositeLit); ok {
								id, ty := "", ""
								for _, el := range cl.Elts {
									if kv, ok := el.(*ast.KeyValueExpr); ok {
										switch nodeStr(fset, kv.Key) {
										case "ID":
											id = nodeStr(fset, kv.Value)
										case "Type":
											ty = nodeStr(fset, kv.Value)
										}
									}
								}
								if e := reElem.FindString(id); e != "" {
									get(e).HeaderID = id
									get(e).HeaderType = ty
									if len(get(e).Guards) == 0 {
										get(e).Guards = append([]string{}, guards...)
									}
								}
							}
						}
					case strings.Contains(call, "ƒencode(") || strings.Contains(call, "ƒencodePtr("):
						as := x.Init.(*ast.AssignStmt)
						if c2, ok := as.Rhs[0].(*ast.CallExpr); ok && len(c2.Args) == 3 {
							e := reElem.FindString(nodeStr(fset, c2.Args[0]))
							f := get(e)
							f.WriteFn = strings.TrimPrefix(nodeStr(fset, c2.Fun), "ƒ")
							f.Value = nodeStr(fset, c2.Args[1])
							f.Guards = append([]string{}, guards...)
							f.ErrChecked = true
						}
					case strings.HasSuffix(call, ".WriteFieldEnd()"):
					default:
						m.OtherErrs = append(m.OtherErrs, call)
					}
					continue
				}
				if x.Init == nil && x.Else == nil {
					// F == nil { return error }  (required nil check)
					if strings.HasSuffix(cond, " == nil") && len(x.Body.List) == 1 {
						lhs := strings.TrimSuffix(cond, " == nil")
						if isNewErrorReturnAny(fset, x.Body.List[0]) {
							if e := reElem.FindString(lhs); e != "" && lhs == recv+".ƒgoNameʃ"+e {
								get(e).NilError = true
								continue
							}
						}
						// default substitution
						if e, ok := defVar[lhs]; ok {
							body := nodeStr(fset, x.Body.List[0])
							if body == lhs+" = ƒconstantValuePtr("+e+"ˑDefault, "+e+"ˑType)" {
								get(e).DefaultOK = true
							} else {
								get(e).Problems = append(get(e).Problems, "default substitution assigns "+body)
							}
							continue
						}
					}
					// union arity
					if (strings.HasSuffix(cond, " != 1") || strings.HasSuffix(cond, " > 1")) && len(x.Body.List) == 1 && isNewErrorReturnAny(fset, x.Body.List[0]) {
						m.Union = cond[strings.LastIndex(cond[:len(cond)-2], " ")+1:]
						m.UnionVar = strings.Fields(cond)[0]
						continue
					}
					// count++ under F != nil
					if strings.HasSuffix(cond, " != nil") && len(x.Body.List) == 1 && strings.HasSuffix(nodeStr(fset, x.Body.List[0]), "++") {
						body := nodeStr(fset, x.Body.List[0])
						if m.UnionVar != "" && body == m.UnionVar+"++" && !containsWrite(fset, x.Body) {
							m.Counted = append(m.Counted, strings.TrimSuffix(cond, " != nil"))
							continue
						}
					}
					walk(x.Body.List, append(append([]string{}, guards...), cond))
					continue
				}
				m.Problems = append(m.Problems, "unrecognised statement: "+str)
			case *ast.BlockStmt:
				walk(x.List, guards)
			case *ast.ReturnStmt:
				if stream && strings.HasSuffix(str, ".WriteStructEnd()") {
					m.End = true
				}
				if !stream && strings.Contains(str, ".NewValueStruct(") {
					m.End = true
					m.Begin = true
				}
			case *ast.DeclStmt, *ast.IncDecStmt:
			case *ast.ExprStmt:
				m.Problems = append(m.Problems, "unrecognised statement: "+str)
			default:
				m.Problems = append(m.Problems, "unrecognised statement: "+str)
			}
		}
	}
	walk(fd.Body.List, nil)
	sort.Slice(m.Fields, func(i, j int) bool { return m.Fields[i].Elem < m.Fields[j].Elem })
	return m
}

func containsWrite(fset interface{}, b *ast.BlockStmt) bool {
	found := false
	ast.Inspect(b, func(n ast.Node) bool {
		if call, ok := n.(*ast.CallExpr); ok {
			if id, ok := call.Fun.(*ast.Ident); ok && (strings.HasPrefix(id.Name, "ƒencode") || strings.HasPrefix(id.Name, "ƒtoWire")) {
				found = true
			}
		}
		return true
	})
	return found
}

func isNewErrorReturnAny(fset interface{}, s ast.Stmt) bool {
	r, ok := s.(*ast.ReturnStmt)
	if !ok || len(r.Results) == 0 {
		return false
	}
	last := r.Results[len(r.Results)-1]
	call, ok := last.(*ast.CallExpr)
	if !ok {
		return false
	}
	sel, ok := call.Fun.(*ast.SelectorExpr)
	if !ok {
		return false
	}
	x, ok := sel.X.(*ast.Ident)
	return ok && ((x.Name == "errors" && sel.Sel.Name == "New") || (x.Name == "fmt" && sel.Sel.Name == "Errorf"))
}

// checkEncoderVariant evaluates the C01.3 encode-side obligations.
func checkEncoderVariant(v *tmpl.Variant, m *encoderModel, stream bool) []string {
	var bad []string
	bad = append(bad, m.Problems...)
	name := map[bool]string{true: "Encode", false: "ToWire"}[stream]
	fd := skelFunc(v, name)
	if fd == nil {
		return append(bad, "method missing")
	}
	recv := recvName(fd)
	els := variantElems(v)
	if !v.Atoms["lenʃδˑFields"] {
		els = nil
	}
	if !m.Begin || !m.End {
		bad = append(bad, "the struct is not framed by begin/end on the success path")
	}
	if len(m.Fields) != len(els) {
		bad = append(bad, fmt.Sprintf("%d fields written for %d declared", len(m.Fields), len(els)))
	}
	byElem := map[string]*encField{}
	for _, f := range m.Fields {
		byElem[f.Elem] = f
	}
	for _, e := range els {
		if !v.Consulted[e+"ˑRequired"] {
			bad = append(bad, "the template does not distinguish required from optional for field "+e)
		} else if !elemRequired(v, e) && !v.Consulted["ƒisNotNilʃ"+e+"ˑDefault"] {
			bad = append(bad, "the template does not consult the declared default of optional field "+e)
		}
		f := byElem[e]
		if f == nil {
			bad = append(bad, "field "+e+" is never written")
			continue
		}
		bad = append(bad, f.Problems...)
		F := recv + ".ƒgoNameʃ" + e
		if f.HeaderID != e+"ˑID" {
			bad = append(bad, "field "+e+" is written under id "+f.HeaderID+" instead of its own id")
		}
		if stream && f.HeaderType != "ƒtypeCode("+e+"ˑType)" {
			bad = append(bad, "field "+e+" is announced with wire type "+f.HeaderType+" instead of the wire type of its declared type")
		}
		if !f.ErrChecked {
			bad = append(bad, "the error of writing field "+e+" is dropped")
		}
		req := elemRequired(v, e)
		def := elemHasDefault(v, e)
		nonNillable := v.Atoms["ƒisPrimitiveTypeʃ"+e+"ˑType"] || v.Atoms["ƒisListTypeʃ"+e+"ˑType"]
		switch {
		case req:
			want := map[bool]string{true: "encode", false: "toWire"}[stream]
			if f.WriteFn != want || f.Value != F {
				bad = append(bad, fmt.Sprintf("required field %s must be written by value with %s(%s); got %s(%s)", e, want, F, f.WriteFn, f.Value))
			}
			if len(f.Guards) != 0 {
				bad = append(bad, "required field "+e+" is written conditionally: "+strings.Join(f.Guards, " && "))
			}
			if !nonNillable && !f.NilError {
				bad = append(bad, "required field "+e+" of a nillable type is not rejected when nil (it would be encoded as absent or crash)")
			}
		case def:
			want := map[bool]string{true: "encodePtr", false: "toWirePtr"}[stream]
			if !f.DefaultOK || f.WriteFn != want || f.Value != f.DefaultVar || f.DefaultVar == "" {
				bad = append(bad, fmt.Sprintf("unset field %s with a default must be written as its default: defaultOK=%v write=%s(%s)", e, f.DefaultOK, f.WriteFn, f.Value))
			}
			if len(f.Guards) != 0 {
				bad = append(bad, "defaulted field "+e+" is written conditionally: "+strings.Join(f.Guards, " && "))
			}
		default:
			want := map[bool]string{true: "encodePtr", false: "toWirePtr"}[stream]
			if f.WriteFn != want || f.Value != F {
				bad = append(bad, fmt.Sprintf("optional field %s must be written through its pointer with %s(%s); got %s(%s)", e, want, F, f.WriteFn, f.Value))
			}
			if len(f.Guards) != 1 || f.Guards[0] != F+" != nil" {
				bad = append(bad, fmt.Sprintf("optional field %s must be written exactly when set; guards: %v", e, f.Guards))
			}
		}
	}
	// union arity
	if v.Atoms["δˑIsUnion"] && len(els) > 0 {
		want := "!= 1"
		if v.Atoms["δˑAllowEmptyUnion"] {
			want = "> 1"
		}
		if m.Union != want {
			bad = append(bad, "union arity check is "+m.Union+", expected "+want)
		}
		if stream {
			var wantCounted []string
			for _, e := range els {
				wantCounted = append(wantCounted, recv+".ƒgoNameʃ"+e)
			}
			if strings.Join(m.Counted, ",") != strings.Join(wantCounted, ",") {
				bad = append(bad, fmt.Sprintf("union arity counts %v instead of every member %v", m.Counted, wantCounted))
			}
		}
	} else if m.Union != "" {
		bad = append(bad, "arity check on a non-union")
	}
	if len(m.OtherErrs) > 0 {
		bad = append(bad, "other fallible calls: "+strings.Join(m.OtherErrs, "; "))
	}
	return bad
}
