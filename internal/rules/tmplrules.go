package rules

import (
	"go/types"
	"strings"
	"text/template/parse"
	"verif/internal/core"
	"verif/internal/tmpl"
)

// expansions returns the abstract expansion of every template (cached).
func expansions(c *core.Ctx, elems int) map[*tmpl.Template]*tmpl.Expansion {
	key := "expansions"
	if elems == 2 {
		key = "expansions2"
	}
	if m, ok := c.Cache[key].(map[*tmpl.Template]*tmpl.Expansion); ok {
		return m
	}
	mod := tmpl.Extract(c)
	out := map[*tmpl.Template]*tmpl.Expansion{}
	nv := 0
	for _, t := range mod.Templates {
		x := tmpl.Expand(t, tmpl.Options{Elems: elems})
		out[t] = x
		nv += len(x.Variants)
	}
	c.Cache[key] = out
	c.Units["template_variants"] = nv
	return out
}

// fieldOrMethodType returns the type of field/method `name` of t (pointers
// dereferenced; a niladic method yields its result type).
func fieldOrMethodType(t types.Type, name string) types.Type {
	if t == nil {
		return nil
	}
	obj, _, _ := types.LookupFieldOrMethod(t, true, nil, name)
	if obj == nil {
		if p, ok := t.(*types.Pointer); ok {
			obj, _, _ = types.LookupFieldOrMethod(p.Elem(), true, nil, name)
		}
	}
	switch o := obj.(type) {
	case *types.Var:
		return o.Type()
	case *types.Func:
		sig := o.Type().(*types.Signature)
		if sig.Results().Len() >= 1 {
			return sig.Results().At(0).Type()
		}
	}
	return nil
}

// elemOf returns the element type of a slice/array/map type (or t itself).
func elemOf(t types.Type) types.Type {
	switch u := t.Underlying().(type) {
	case *types.Slice:
		return u.Elem()
	case *types.Array:
		return u.Elem()
	case *types.Map:
		return u.Elem()
	}
	return t
}

// DumpSkeleton prints variants of a template (debugging aid, VDEBUG=tmpl:<id>).
func DumpSkeleton(c *core.Ctx, id string) {
	mod := tmpl.Extract(c)
	xs := expansions(c, 1)
	for _, t := range mod.Templates {
		if t.ID != id {
			continue
		}
		for i, v := range xs[t].Variants {
			println("=== variant", i, v.AtomString())
			println(v.Src)
		}
	}
}

// templateRanges lists the pipelines (as field chains like ".Value.Fields")
// that range nodes of the template iterate over (top-level data only).
func templateRanges(t *tmpl.Template) []string {
	var out []string
	var walk func(n parse.Node, inRange bool)
	walk = func(n parse.Node, inRange bool) {
		switch x := n.(type) {
		case *parse.ListNode:
			if x != nil {
				for _, ch := range x.Nodes {
					walk(ch, inRange)
				}
			}
		case *parse.IfNode:
			walk(x.List, inRange)
			walk(x.ElseList, inRange)
		case *parse.WithNode:
			walk(x.List, inRange)
			walk(x.ElseList, inRange)
		case *parse.RangeNode:
			if !inRange && len(x.Pipe.Cmds) == 1 && len(x.Pipe.Cmds[0].Args) == 1 {
				if f, ok := x.Pipe.Cmds[0].Args[0].(*parse.FieldNode); ok {
					out = append(out, "."+strings.Join(f.Ident, "."))
				}
			}
			walk(x.List, true)
			walk(x.ElseList, inRange)
		}
	}
	walk(t.Tree.Root, false)
	return out
}

// chainType resolves the static Go type of a field chain of the template data.
func chainType(t *tmpl.Template, chain string) string {
	typ := t.DataType
	for _, p := range strings.Split(strings.TrimPrefix(chain, "."), ".") {
		if p == "" {
			continue
		}
		typ = fieldOrMethodType(typ, p)
		if typ == nil {
			return ""
		}
	}
	return typ.Underlying().String()
}
