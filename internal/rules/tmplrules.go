package rules

import (
	"go/types"
	"verif/internal/core"
	"verif/internal/tmpl"
)

// expansions returns the abstract expansion of every template (cached).
func expansions(c *core.Ctx, elems int) map[*tmpl.Template]*tmpl.Expansion {
	key := "expansions"
	if elems == 2 {
		key = "expansions2"
	}
	if m, ok := c.Cache[key].(map[*tmpl.Template]*tmpl.Expansion); ok {
		return m
	}
	mod := tmpl.Extract(c)
	out := map[*tmpl.Template]*tmpl.Expansion{}
	nv := 0
	for _, t := range mod.Templates {
		x := tmpl.Expand(t, tmpl.Options{Elems: elems})
		out[t] = x
		nv += len(x.Variants)
	}
	c.Cache[key] = out
	c.Units["template_variants"] = nv
	return out
}

// fieldOrMethodType returns the type of field/method `name` of t (pointers
// dereferenced; a niladic method yields its result type).
func fieldOrMethodType(t types.Type, name string) types.Type {
	if t == nil {
		return nil
	}
	obj, _, _ := types.LookupFieldOrMethod(t, true, nil, name)
	if obj == nil {
		if p, ok := t.(*types.Pointer); ok {
			obj, _, _ = types.LookupFieldOrMethod(p.Elem(), true, nil, name)
		}
	}
	switch o := obj.(type) {
	case *types.Var:
		return o.Type()
	case *types.Func:
		sig := o.Type().(*types.Signature)
		if sig.Results().Len() >= 1 {
			return sig.Results().At(0).Type()
		}
	}
	return nil
}

// elemOf returns the element type of a slice/array/map type (or t itself).
func elemOf(t types.Type) types.Type {
	switch u := t.Underlying().(type) {
	case *types.Slice:
		return u.Elem()
	case *types.Array:
		return u.Elem()
	case *types.Map:
		return u.Elem()
	}
	return t
}

// DumpSkeleton prints variants of a template (debugging aid, VDEBUG=tmpl:<id>).
func DumpSkeleton(c *core.Ctx, id string) {
	mod := tmpl.Extract(c)
	xs := expansions(c, 1)
	for _, t := range mod.Templates {
		if t.ID != id {
			continue
		}
		for i, v := range xs[t].Variants {
			println("=== variant", i, v.AtomString())
			println(v.Src)
		}
	}
}
