package rules

import (
	"fmt"
	"go/token"
	"go/types"
	"os"
	"sort"

	"golang.org/x/tools/go/packages"
	"golang.org/x/tools/go/ssa"
	"golang.org/x/tools/go/ssa/ssautil"

	"verif/internal/core"
)

// typeByNameSites: places where two type specifications are treated as the
// same because their ThriftName()s are equal — an ==/!= between two ThriftName
// results, or a map keyed by ThriftName() results used as a "seen" set (lookup
// and update with such keys in one function). ThriftName is local to the
// defining file: two files may each define a Point, so name equality is not
// type identity. A name used together with ThriftFile() of the same
// specification (a per-file table) is an identity and is not reported.
func typeByNameSites(fns []*ssa.Function) []ssa.Instruction {
	isTypeSpecName := func(v ssa.Value) bool {
		call, ok := v.(*ssa.Call)
		if !ok {
			return false
		}
		com := call.Common()
		var recv types.Type
		name := ""
		if com.IsInvoke() {
			name, recv = com.Method.Name(), com.Value.Type()
		} else if cal := com.StaticCallee(); cal != nil && cal.Signature.Recv() != nil {
			name, recv = cal.Name(), cal.Signature.Recv().Type()
		}
		if name != "ThriftName" || recv == nil {
			return false
		}
		// the receiver is a type specification: it also has TypeCode and Link
		ms := types.NewMethodSet(recv)
		has := func(n string) bool {
			for i := 0; i < ms.Len(); i++ {
				if ms.At(i).Obj().Name() == n {
					return true
				}
			}
			return false
		}
		return has("TypeCode") && has("Link")
	}
	var out []ssa.Instruction
	recvOf := func(v ssa.Value) ssa.Value {
		call := v.(*ssa.Call)
		if call.Common().IsInvoke() {
			return call.Common().Value
		}
		if len(call.Common().Args) > 0 {
			return call.Common().Args[0]
		}
		return nil
	}
	for _, f := range fns {
		// names qualified by the defining file are identities: receivers on which ThriftFile() is consulted too
		fileOf := map[ssa.Value]bool{}
		core.Instrs(f, func(in ssa.Instruction) {
			if call, ok := in.(*ssa.Call); ok {
				com := call.Common()
				if com.IsInvoke() && com.Method.Name() == "ThriftFile" {
					fileOf[com.Value] = true
				} else if cal := com.StaticCallee(); cal != nil && cal.Name() == "ThriftFile" && len(com.Args) > 0 {
					fileOf[com.Args[0]] = true
				}
			}
		})
		isTypeSpecName := func(v ssa.Value) bool { return isTypeSpecName(v) && !fileOf[recvOf(v)] }
		lookups := map[ssa.Value][]ssa.Instruction{} // map value -> lookups keyed by a type name
		updates := map[ssa.Value]bool{}
		core.Instrs(f, func(in ssa.Instruction) {
			switch x := in.(type) {
			case *ssa.BinOp:
				if (x.Op == token.EQL || x.Op == token.NEQ) && isTypeSpecName(x.X) && isTypeSpecName(x.Y) {
					out = append(out, in)
				}
			case *ssa.Lookup:
				if isTypeSpecName(x.Index) {
					lookups[x.X] = append(lookups[x.X], in)
				}
			case *ssa.MapUpdate:
				if isTypeSpecName(x.Key) {
					updates[x.Map] = true
				}
			}
		})
		for m, ls := range lookups {
			if updates[m] {
				out = append(out, ls...)
			}
		}
	}
	sort.Slice(out, func(i, j int) bool { return out[i].Pos() < out[j].Pos() })
	return out
}

// checkTypeIdentity arms TYPE-IDENTITY on the given packages, with a witness.
func checkTypeIdentity(c *core.Ctx, l *core.Ledger, rule string, rels []string) {
	cfg := &packages.Config{Mode: packages.LoadAllSyntax, Dir: witnessDir(), Env: append(os.Environ(), "GOWORK=off", "GOFLAGS=-mod=mod", "GOPROXY=off")}
	pkgs, err := packages.Load(cfg, "./testdata/witness/typename")
	fired := false
	if err == nil && len(pkgs) == 1 && len(pkgs[0].Errors) == 0 {
		prog, sp := ssautil.AllPackages(pkgs, 0)
		prog.Build()
		var fns []*ssa.Function
		for _, m := range sp[0].Members {
			if fn, ok := m.(*ssa.Function); ok {
				fns = append(fns, fn)
			}
		}
		hit := map[string]int{}
		for _, in := range typeByNameSites(fns) {
			hit[in.Parent().Name()]++
		}
		fired = hit["sameByName"] == 1 && hit["dedup"] == 1 && hit["sameByIdentity"] == 0 && hit["nameIs"] == 0
		if !fired && os.Getenv("VDEBUG") != "" {
			fmt.Fprintln(os.Stderr, "typename witness:", hit)
		}
	}
	l.Witness(rule, fired, "the matcher must flag sameByName and dedup (and only them) in testdata/witness/typename")
	var fns []*ssa.Function
	for _, f := range c.AllFuncs(rels...) {
		if !c.IsTestFile(f.Pos()) {
			fns = append(fns, f)
		}
	}
	for i, in := range typeByNameSites(fns) {
		l.Bad(rule, fmt.Sprintf("%s:by-name#%d", core.SSAName(in.Parent()), i+1), c.Rel(in.Pos()), "two type specifications are treated as the same because their ThriftName()s are equal; the name is local to the defining file, so same-named types of different files are confused")
	}
	l.Add(core.Obligation{Rule: rule, Key: "scan", Status: core.Discharged, Detail: fmt.Sprintf("%d functions scanned for sameness-by-name of type specifications", len(fns))})
}
