package rules

import (
	"go/ast"
	"go/types"
	"sort"
	"strings"

	"verif/internal/core"
)

// tsReport describes one type switch over a repository interface.
type tsReport struct {
	PkgRel     string
	Func       string
	Pos        string
	Iface      string
	Cases      []string
	Missing    []string // implementers of the interface not handled by a case
	Default    string   // "", "error", "panic", "return", "fall"
	AfterPanic bool     // no default, but the statement following the switch panics
	TagIsRoot  bool     // the tag is (derived from) compile.RootTypeSpec(...): typedefs cannot reach it
	Node       *ast.TypeSwitchStmt
	Decl       *ast.FuncDecl
	Info       *types.Info
}

// ifaceDomains: the interfaces whose type switches are tracked, with the
// packages in which their implementers live.
func ifaceDomain(c *core.Ctx, iface string) (types.Type, []types.Type) {
	var pkg, name string
	if i := strings.LastIndex(iface, "."); i >= 0 {
		pkg, name = iface[:i], iface[i+1:]
	}
	p := c.Pkg(pkg)
	tn, _ := p.Types.Scope().Lookup(name).(*types.TypeName)
	if tn == nil {
		return nil, nil
	}
	it, ok := tn.Type().Underlying().(*types.Interface)
	if !ok {
		return nil, nil
	}
	impl := c.Implementers(it, p)
	return tn.Type(), impl
}

// typeSwitches lists all type switches in non-test, non-generated code of the
// packages whose tag has one of the tracked interface types.
func typeSwitches(c *core.Ctx, rels []string, ifaces []string) []tsReport {
	type dom struct {
		t    types.Type
		impl []types.Type
		name string
	}
	var doms []dom
	for _, in := range ifaces {
		t, impl := ifaceDomain(c, in)
		if t != nil {
			doms = append(doms, dom{t, impl, in})
		}
	}
	var out []tsReport
	for _, rel := range rels {
		p := c.Pkg(rel)
		for _, f := range p.Syntax {
			if core.IsGenerated(f) || c.IsTestFile(f.Pos()) {
				continue
			}
			for _, d := range f.Decls {
				fd, ok := d.(*ast.FuncDecl)
				if !ok || fd.Body == nil {
					continue
				}
				// parent map for "statement after the switch"
				for _, sw := range core.Switches(p.TypesInfo, fd.Body) {
					if !sw.IsType || sw.TagType == nil {
						continue
					}
					for _, dm := range doms {
						if !types.Identical(sw.TagType, dm.t) {
							continue
						}
						r := tsReport{PkgRel: rel, Func: core.DeclName(fd), Pos: c.Rel(sw.Node.Pos()), Iface: dm.name, Node: sw.Node.(*ast.TypeSwitchStmt), Decl: fd, Info: p.TypesInfo}
						for _, ct := range sw.CaseTypes {
							r.Cases = append(r.Cases, core.TypeLabel(ct))
						}
						for _, it := range dm.impl {
							// unexported implementers of another package cannot be named: they are pre-link placeholders
							if n := core.RecvTypeName(it); n != "" && !ast.IsExported(n) && rel != dm.name[:strings.LastIndex(dm.name, ".")] {
								continue
							}
							if !sw.HasCaseType(it) {
								r.Missing = append(r.Missing, core.TypeLabel(it))
							}
						}
						sort.Strings(r.Missing)
						if sw.Default != nil {
							r.Default = core.ClauseEnd(p.TypesInfo, sw.Default)
						} else {
							r.AfterPanic = stmtAfterPanics(fd, sw.Node)
						}
						r.TagIsRoot = tagFromRoot(p.TypesInfo, fd, sw.Tag)
						out = append(out, r)
					}
				}
			}
		}
	}
	return out
}

// stmtAfterPanics: the statement following the switch in its block is a panic call.
func stmtAfterPanics(fd *ast.FuncDecl, sw ast.Stmt) bool {
	res := false
	ast.Inspect(fd.Body, func(n ast.Node) bool {
		bl, ok := n.(*ast.BlockStmt)
		if !ok {
			return true
		}
		for i, s := range bl.List {
			if s == sw && i+1 < len(bl.List) {
				if es, ok := bl.List[i+1].(*ast.ExprStmt); ok {
					if call, ok := es.X.(*ast.CallExpr); ok {
						if id, ok := call.Fun.(*ast.Ident); ok && id.Name == "panic" {
							res = true
						}
					}
				}
			}
		}
		return true
	})
	return res
}

// tagFromRoot: the switch tag is a call to compile.RootTypeSpec, or a
// variable whose only assignments in the function are such calls.
func tagFromRoot(info *types.Info, fd *ast.FuncDecl, tag ast.Expr) bool {
	isRootCall := func(e ast.Expr) bool {
		call, ok := ast.Unparen(e).(*ast.CallExpr)
		if !ok {
			return false
		}
		var id *ast.Ident
		switch f := call.Fun.(type) {
		case *ast.Ident:
			id = f
		case *ast.SelectorExpr:
			id = f.Sel
		}
		if id == nil {
			return false
		}
		fn, _ := info.Uses[id].(*types.Func)
		return fn != nil && fn.Name() == "RootTypeSpec" && fn.Pkg() != nil && strings.HasSuffix(fn.Pkg().Path(), "/compile")
	}
	if isRootCall(tag) {
		return true
	}
	id, ok := ast.Unparen(tag).(*ast.Ident)
	if !ok {
		return false
	}
	obj := info.Uses[id]
	if obj == nil {
		obj = info.Defs[id]
	}
	n, all := 0, true
	ast.Inspect(fd.Body, func(nd ast.Node) bool {
		as, ok := nd.(*ast.AssignStmt)
		if !ok {
			return true
		}
		for i, lhs := range as.Lhs {
			lid, ok := lhs.(*ast.Ident)
			if !ok {
				continue
			}
			o := info.Uses[lid]
			if o == nil {
				o = info.Defs[lid]
			}
			if o != obj || i >= len(as.Rhs) {
				continue
			}
			n++
			if !isRootCall(as.Rhs[i]) {
				all = false
			}
		}
		return true
	})
	// a parameter that is reassigned from RootTypeSpec before the switch counts too
	return n > 0 && all
}
