package rules

import (
	"fmt"
	"go/constant"
	"go/types"
	"sort"
	"strings"

	"golang.org/x/tools/go/ssa"

	"verif/internal/core"
)

// wireDispatchSSA decides exhaustiveness of a dispatch over wire.Type that
// is not written as a switch statement (an if/else chain, a table, a mixture):
// the function is explored once per type code by finite-domain constant
// propagation with the dispatched value fixed (the wire.Type parameter, or a
// wire.Type read off a parameter; one-argument helpers of it such as
// fixedWidth(t) are evaluated as tables). The returns reached for codes
// outside the protocol are the default; a protocol code is handled when it
// reaches a return the default does not.
func wireDispatchSSA(c *core.Ctx, f *ssa.Function, consts []*types.Const, wireT types.Type) (missing []string, defEnd string, ok bool) {
	if f == nil || len(f.Blocks) == 0 {
		return nil, "", false
	}
	rooted := func(v ssa.Value) bool {
		for d := 0; d < 6; d++ {
			switch x := v.(type) {
			case *ssa.Parameter:
				return true
			case *ssa.UnOp:
				v = x.X
			case *ssa.FieldAddr:
				v = x.X
			case *ssa.Field:
				v = x.X
			case *ssa.Call:
				if x.Call.IsInvoke() && len(x.Call.Args) == 0 {
					v = x.Call.Value
				} else if cal := x.Call.StaticCallee(); cal != nil && len(x.Call.Args) == 1 && cal.Signature.Recv() != nil {
					v = x.Call.Args[0]
				} else {
					return false
				}
			default:
				return false
			}
		}
		return false
	}
	// all keyed values must be the same dispatched quantity: count distinct roots
	keyFor := func(code int64) func(v ssa.Value) (core.CVal, bool) {
		var key func(v ssa.Value) (core.CVal, bool)
		key = func(v ssa.Value) (core.CVal, bool) {
			if types.Identical(v.Type(), wireT) {
				if _, isC := v.(*ssa.Const); !isC && rooted(v) {
					return core.CVal{Kind: core.CInt, I: code}, true
				}
			}
			if call, isCall := v.(*ssa.Call); isCall {
				cal := call.Call.StaticCallee()
				if cal != nil && core.InRepo(cal) && len(cal.Params) == 1 && len(call.Call.Args) == 1 && types.Identical(cal.Params[0].Type(), wireT) && cal != f {
					if a, isK := key(call.Call.Args[0]); isK {
						res, prob := c.FiniteTable(cal, 0, []int64{a.I})
						if r, has := res[a.I]; has && len(prob) == 0 {
							return r, true
						}
					}
				}
			}
			return core.CVal{}, false
		}
		return key
	}
	type outcome struct {
		rets   map[*ssa.Return]bool
		allErr bool
		panics bool
	}
	hasErr := f.Signature.Results().Len() > 0 && core.IsErrorType(f.Signature.Results().At(f.Signature.Results().Len()-1).Type())
	run := func(code int64) (*outcome, bool) {
		paths, fin := c.FiniteEval(f, core.FEOpts{Key: keyFor(code), MaxPaths: 20000})
		if !fin || len(paths) == 0 {
			return nil, false
		}
		o := &outcome{rets: map[*ssa.Return]bool{}, allErr: hasErr}
		for _, p := range paths {
			if p.Panic != "" || p.Ret == nil {
				o.panics = true
				o.allErr = false
				continue
			}
			o.rets[p.Ret] = true
			if hasErr {
				last := len(p.Results) - 1
				if !(last >= 0 && p.Results[last].Kind == core.CNonNil) && !core.DefinitelyNonNilError(p.Ret.Results[len(p.Ret.Results)-1], 2) {
					o.allErr = false
				}
			}
		}
		return o, true
	}
	valid := map[int64]bool{}
	for _, k := range consts {
		n, _ := constant.Int64Val(k.Val())
		valid[n] = true
	}
	def := map[*ssa.Return]bool{}
	defEnd = "error"
	nInvalid := 0
	for _, code := range []int64{1, 5, 7, 9, 16, 255} {
		if valid[code] {
			continue
		}
		o, fin := run(code)
		if !fin {
			return nil, "", false
		}
		nInvalid++
		for r := range o.rets {
			def[r] = true
		}
		switch {
		case o.panics:
			defEnd = "panic"
		case !o.allErr && defEnd == "error":
			defEnd = "return"
		}
	}
	if nInvalid == 0 {
		return nil, "", false
	}
	for _, k := range consts {
		n, _ := constant.Int64Val(k.Val())
		o, fin := run(n)
		if !fin {
			return nil, "", false
		}
		handled := false
		for r := range o.rets {
			if !def[r] {
				handled = true
			}
		}
		if o.panics && defEnd != "panic" {
			handled = true
		}
		if !handled {
			missing = append(missing, k.Name())
		}
	}
	sort.Strings(missing)
	return missing, defEnd, true
}

// reportWireDispatchSSA is the fallback of wireSwitchExhaustive.
func reportWireDispatchSSA(c *core.Ctx, l *core.Ledger, rule, key, pos string, f *ssa.Function, consts []*types.Const, wireT types.Type, needErrorDefault bool) bool {
	missing, end, ok := wireDispatchSSA(c, f, consts, wireT)
	if !ok {
		return false
	}
	switch {
	case len(missing) > 0:
		l.Bad(rule, key, pos, fmt.Sprintf("dispatch over wire.Type (evaluated per type code) treats %s like a code outside the protocol", strings.Join(missing, ", ")))
	case needErrorDefault && end != "error":
		l.Bad(rule, key, pos, fmt.Sprintf("for a type code outside the protocol the function must return an error, but it %ss", end))
	default:
		l.Ok(rule, key, pos, fmt.Sprintf("evaluated per type code: all %d wire types reach code of their own; other codes end in %s", len(consts), end))
	}
	return true
}
