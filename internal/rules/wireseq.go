package rules

import (
	"fmt"
	"go/token"
	"go/types"
	"regexp"
	"sort"
	"strings"

	"golang.org/x/tools/go/ssa"

	"verif/internal/core"
)

const binPkg = core.ModPath + "/protocol/binary"

// wireModel extracts, from the SSA of protocol/binary, the ordered sequence of
// primitive wire operations each StreamWriter / StreamReader method performs on
// its success path, with a symbolic description of what is written / where
// the value read ends up.
type wireModel struct {
	c       *core.Ctx
	wprim   *ssa.Function // (*StreamWriter).write-like primitive: invokes io.Writer.Write on the writer field
	rprim   *ssa.Function // (*StreamReader).read-like primitive: io.ReadFull on the reader field
	wcache  map[*ssa.Function][][]string
	rcache  map[*ssa.Function][][]string
	problem []string
	stack   map[*ssa.Function]bool
	recur   map[*ssa.Function]bool // layer functions on a static-call cycle: never inlined
	// unroll: members of a call cycle are expanded in place once (a call to a member that is already
	// being expanded stays a call event); results are not cached in this mode
	unroll bool
	decide func(ifi *ssa.If) (int, bool)
}

func isLayer(f *ssa.Function) bool {
	if f == nil || core.PkgRel(f) != "protocol/binary" || len(f.Blocks) == 0 {
		return false
	}
	switch recvNamed(f) {
	case "StreamWriter", "Writer", "StreamReader", "reader", "Reader":
		return true
	}
	return false
}

func (m *wireModel) computeRecursive() {
	m.recur = map[*ssa.Function]bool{}
	succ := func(f *ssa.Function) []*ssa.Function {
		var out []*ssa.Function
		for _, call := range core.Calls(f) {
			if cal := call.Common().StaticCallee(); isLayer(cal) {
				out = append(out, cal)
			}
		}
		return out
	}
	for _, f := range m.c.AllFuncs("protocol/binary") {
		if !isLayer(f) {
			continue
		}
		seen := map[*ssa.Function]bool{}
		st := succ(f)
		for len(st) > 0 {
			x := st[len(st)-1]
			st = st[:len(st)-1]
			if seen[x] {
				continue
			}
			seen[x] = true
			st = append(st, succ(x)...)
		}
		if seen[f] {
			m.recur[f] = true
		}
	}
}

func recvNamed(f *ssa.Function) string {
	if f == nil || f.Signature.Recv() == nil {
		return ""
	}
	return core.RecvTypeName(f.Signature.Recv().Type())
}

func newWireModel(c *core.Ctx) *wireModel {
	m := &wireModel{c: c, wcache: map[*ssa.Function][][]string{}, rcache: map[*ssa.Function][][]string{}, stack: map[*ssa.Function]bool{}}
	for _, f := range c.AllFuncs("protocol/binary") {
		switch recvNamed(f) {
		case "StreamWriter":
			core.Instrs(f, func(in ssa.Instruction) {
				if call, ok := in.(ssa.CallInstruction); ok && call.Common().IsInvoke() &&
					call.Common().Method.Name() == "Write" && core.TypeLabel(call.Common().Value.Type()) == "io.Writer" {
					if fld, _ := core.LoadedField(call.Common().Value); fld != nil {
						m.wprim = f
					}
				}
			})
		case "StreamReader":
			core.Instrs(f, func(in ssa.Instruction) {
				if core.IsFullRead(in) {
					call := in.(ssa.CallInstruction)
					if fld, _ := core.LoadedField(call.Common().Args[0]); fld != nil {
						if _, isParam := call.Common().Args[1].(*ssa.Parameter); isParam {
							m.rprim = f
						}
					}
				}
			})
		}
	}
	m.computeRecursive()
	return m
}

var dollar = regexp.MustCompile(`\$(\d+)`)

func substitute(ev string, args []string) string {
	return core.ResolveLit(dollar.ReplaceAllStringFunc(ev, func(s string) string {
		var i int
		fmt.Sscanf(s[1:], "%d", &i)
		if i < len(args) {
			return args[i]
		}
		return s
	}))
}

// endianOf classifies a static callee in encoding/binary: returns "be"/"le",
// bit width and whether it is a Put.
func endianOf(f *ssa.Function) (order string, bits int, put bool, ok bool) {
	if f == nil || f.Pkg == nil || f.Pkg.Pkg.Path() != "encoding/binary" {
		return
	}
	switch recvNamed(f) {
	case "bigEndian":
		order = "be"
	case "littleEndian":
		order = "le"
	default:
		return
	}
	name := f.Name()
	if strings.HasPrefix(name, "Put") {
		put = true
		name = name[3:]
	}
	switch name {
	case "Uint16":
		bits = 16
	case "Uint32":
		bits = 32
	case "Uint64":
		bits = 64
	default:
		return
	}
	ok = true
	return
}

// bufContent describes what a fixed-width scratch slice holds when written.
func (m *wireModel) bufContent(bs ssa.Value, width int64) string {
	var descr []string
	for _, r := range *bs.Referrers() {
		switch x := r.(type) {
		case *ssa.Call:
			if o, bits, put, ok := endianOf(x.Call.StaticCallee()); ok && put && len(x.Call.Args) == 3 && x.Call.Args[1] == bs {
				if int64(bits/8) != width {
					descr = append(descr, fmt.Sprintf("WIDTH-MISMATCH(%s%d in %d bytes)", o, bits, width))
				} else {
					descr = append(descr, fmt.Sprintf("%s%d(%s)", o, bits, core.Sym(x.Call.Args[2])))
				}
			}
		case *ssa.IndexAddr:
			idx, isConst := core.ConstInt(x.Index)
			for _, rr := range *x.Referrers() {
				if st, ok := rr.(*ssa.Store); ok && st.Addr == x {
					if isConst && width == 1 && idx == 0 {
						descr = append(descr, "u8("+core.Sym(st.Val)+")")
					} else {
						descr = append(descr, fmt.Sprintf("bytestore[%v]", x.Index))
					}
				}
			}
		}
	}
	if len(descr) != 1 {
		return fmt.Sprintf("raw%d(?%s)", width, strings.Join(descr, "&"))
	}
	return descr[0]
}

func isBuiltin(v ssa.Value, name string) (*ssa.Call, bool) {
	c, ok := v.(*ssa.Call)
	if !ok {
		return nil, false
	}
	b, ok := c.Call.Value.(*ssa.Builtin)
	return c, ok && b.Name() == name
}

// writeArg describes the byte slice handed to the write primitive.
func (m *wireModel) writeArg(bs ssa.Value) string {
	if w, ok := core.ConstSliceWidth(bs); ok {
		return m.bufContent(bs, w)
	}
	if p, ok := bs.(*ssa.Parameter); ok {
		return "bytes(" + core.Sym(p) + ")"
	}
	// bigEndian.AppendUintN(buf[:0], v): exactly the N/8 big-endian bytes of v
	if call, ok := bs.(*ssa.Call); ok && len(call.Call.Args) == 3 {
		if cal := call.Call.StaticCallee(); cal != nil && cal.Pkg != nil && cal.Pkg.Pkg.Path() == "encoding/binary" && strings.HasPrefix(cal.Name(), "AppendUint") {
			order := map[string]string{"bigEndian": "be", "littleEndian": "le"}[recvNamed(cal)]
			bits := strings.TrimPrefix(cal.Name(), "AppendUint")
			if sl, isSl := call.Call.Args[1].(*ssa.Slice); isSl && order != "" && sl.Low == nil && sl.High != nil {
				if h, isC := core.ConstInt(sl.High); isC && h == 0 {
					return order + bits + "(" + core.Sym(call.Call.Args[2]) + ")"
				}
			}
		}
	}
	if c, ok := isBuiltin(bs, "Slice"); ok { // unsafe.Slice(unsafe.StringData(s), len(s))
		if d, ok := isBuiltin(c.Call.Args[0], "StringData"); ok {
			if l, ok := isBuiltin(c.Call.Args[1], "len"); ok && l.Call.Args[0] == d.Call.Args[0] {
				return "bytes(" + core.Sym(d.Call.Args[0]) + ")"
			}
		}
	}
	if cv, ok := bs.(*ssa.Convert); ok { // []byte(s)
		return "bytes(" + core.Sym(cv.X) + ")"
	}
	return "write(?" + core.Sym(bs) + ")"
}

// WSeqs returns the success-path write sequences of a StreamWriter method,
// expressed over its own parameters ($0 = receiver).
func (m *wireModel) WSeqs(f *ssa.Function) [][]string {
	if s, ok := m.wcache[f]; ok {
		return s
	}
	m.stack[f] = true
	defer delete(m.stack, f)
	seqs, ok := core.SuccessSeqs(f, core.SeqOpts{EdgeLabel: wireEdgeLabel, Classify: func(in ssa.Instruction, inLoop bool) []string {
		call, ok := in.(*ssa.Call)
		if !ok {
			return nil
		}
		if call.Call.IsInvoke() && f == m.wprim && call.Call.Method.Name() == "Write" {
			return []string{"RAW($1)"}
		}
		if call.Call.IsInvoke() && call.Call.Method.Name() == "ForEach" && len(call.Call.Args) == 1 {
			ev := "foreach:" + core.Sym(call.Call.Value) + "(" + core.Sym(call.Call.Args[0]) + ")"
			if inLoop {
				ev = "loop:" + ev
			}
			return []string{ev}
		}
		callee := call.Call.StaticCallee()
		if callee == nil || (recvNamed(callee) != "StreamWriter" && recvNamed(callee) != "Writer") || core.PkgRel(callee) != "protocol/binary" {
			return nil
		}
		var out []string
		if m.recur[callee] {
			var args []string
			for _, a := range call.Call.Args[1:] {
				args = append(args, core.Sym(a))
			}
			out = []string{"call:" + core.CanonName(callee) + "(" + strings.Join(args, ",") + ")"}
		} else if callee == m.wprim {
			out = []string{m.writeArg(call.Call.Args[1])}
		} else if sub := m.WSeqs(callee); recvNamed(callee) != "StreamWriter" || len(sub) > 3 {
			var args []string
			for _, a := range call.Call.Args[1:] {
				args = append(args, core.Sym(a))
			}
			out = []string{"call:" + core.CanonName(callee) + "(" + strings.Join(args, ",") + ")"}
		} else {
			var args []string
			for _, a := range call.Call.Args {
				args = append(args, core.Sym(a))
			}
			if len(sub) == 1 {
				for _, e := range sub[0] {
					out = append(out, substitute(e, args))
				}
			} else {
				var alts []string
				for _, s := range sub {
					var es []string
					for _, e := range s {
						es = append(es, substitute(e, args))
					}
					alts = append(alts, strings.Join(es, " "))
				}
				sort.Strings(alts)
				out = []string{"alt{" + strings.Join(alts, "|") + "}"}
			}
		}
		if inLoop {
			for i := range out {
				out[i] = "loop:" + out[i]
			}
		}
		return out
	}})
	if !ok {
		seqs = [][]string{{"TOO-MANY-PATHS"}}
	}
	m.wcache[f] = seqs
	return seqs
}

// dests describes where a value read from the wire ends up, restricted to
// results and struct fields of the function's results.
func dests(v ssa.Value) string {
	set := map[string]bool{}
	seen := map[ssa.Value]bool{}
	var walk func(v ssa.Value, via string)
	walk = func(v ssa.Value, via string) {
		if seen[v] {
			return
		}
		seen[v] = true
		refs := v.Referrers()
		if refs == nil {
			return
		}
		for _, r := range *refs {
			switch x := r.(type) {
			case *ssa.Convert:
				walk(x, via)
			case *ssa.ChangeType:
				walk(x, via)
			case *ssa.Phi:
				walk(x, via)
			case *ssa.Return:
				for i, res := range x.Results {
					if res == v {
						set[fmt.Sprintf("%sret%d", via, i)] = true
					}
				}
			case *ssa.Store:
				if x.Val == v {
					if fa, ok := x.Addr.(*ssa.FieldAddr); ok {
						set[via+"."+core.FieldName(core.FieldOf(fa))] = true
					}
				}
			case *ssa.Call:
				if o := core.CalleeObj(x); o != nil && o.Pkg() != nil && o.Pkg().Path() == "math" && o.Name() == "Float64frombits" {
					walk(x, via+"f64frombits:")
				}
				if b, ok := x.Call.Value.(*ssa.Builtin); ok && b.Name() == "String" {
					walk(x, via)
				}
			}
		}
	}
	walk(v, "")
	var out []string
	for k := range set {
		out = append(out, k)
	}
	sort.Strings(out)
	return strings.Join(out, ",")
}

// readResult describes the value decoded out of a fixed scratch slice after
// the read primitive filled it.
func (m *wireModel) readResult(bs ssa.Value, width int64) string {
	var descr []string
	for _, r := range *bs.Referrers() {
		switch x := r.(type) {
		case *ssa.Call:
			if o, bits, put, ok := endianOf(x.Call.StaticCallee()); ok && !put {
				if int64(bits/8) != width {
					descr = append(descr, fmt.Sprintf("WIDTH-MISMATCH(%s%d of %d bytes)", o, bits, width))
				} else {
					descr = append(descr, fmt.Sprintf("%s%d→%s", o, bits, dests(x)))
				}
			}
		case *ssa.IndexAddr:
			idx, isConst := core.ConstInt(x.Index)
			for _, rr := range *x.Referrers() {
				if ld, ok := rr.(*ssa.UnOp); ok && ld.Op == token.MUL {
					if isConst && idx == 0 && width == 1 {
						d := "u8→" + dests(ld)
						dup := false
						for _, e := range descr {
							if e == d {
								dup = true
							}
						}
						if !dup {
							descr = append(descr, d)
						}
					} else {
						descr = append(descr, "byteload[?]")
					}
				}
			}
		}
	}
	if len(descr) == 0 {
		return fmt.Sprintf("r%d→", width)
	}
	// several loads of bs[0] (ReadBool reads it again for the message): merge
	sort.Strings(descr)
	if len(descr) > 1 {
		allU8 := true
		for _, d := range descr {
			if !strings.HasPrefix(d, "u8→") {
				allU8 = false
			}
		}
		if allU8 {
			var ds []string
			for _, d := range descr {
				if t := strings.TrimPrefix(d, "u8→"); t != "" {
					ds = append(ds, t)
				}
			}
			return "u8→" + strings.Join(ds, ",")
		}
		return "AMBIGUOUS(" + strings.Join(descr, "&") + ")"
	}
	return descr[0]
}

// mapDests rewrites the destination part of a callee event ("…→ret0,ret1")
// to the caller's destinations of the corresponding Extract values.
func mapDests(ev string, call *ssa.Call) string {
	i := strings.LastIndex(ev, "→")
	if i < 0 {
		return ev
	}
	head, ds := ev[:i], ev[i+len("→"):]
	if ds == "" {
		return ev
	}
	var out []string
	for _, d := range strings.Split(ds, ",") {
		prefix := ""
		base := d
		if j := strings.LastIndex(d, ":"); j >= 0 {
			prefix, base = d[:j+1], d[j+1:]
		}
		if strings.HasPrefix(base, "ret") {
			var k int
			fmt.Sscanf(base[3:], "%d", &k)
			var val ssa.Value
			if tup, ok := call.Type().(*types.Tuple); ok && tup.Len() > 1 {
				for _, r := range *call.Referrers() {
					if ex, ok := r.(*ssa.Extract); ok && ex.Index == k {
						val = ex
					}
				}
			} else if k == 0 {
				val = call
			}
			if val != nil {
				if dd := dests(val); dd != "" {
					for _, x := range strings.Split(dd, ",") {
						out = append(out, prefix+x)
					}
				}
			}
		}
		// struct-field destinations of the callee's own result are kept as
		// "retK.Field" only when the callee returned the struct: handled by caller rows
		if strings.HasPrefix(base, ".") {
			out = append(out, prefix+"res"+base)
		}
	}
	sort.Strings(out)
	return head + "→" + strings.Join(out, ",")
}

// RSeqs returns the success-path read sequences of a StreamReader method.
func (m *wireModel) RSeqs(f *ssa.Function) [][]string {
	if !m.unroll {
		if s, ok := m.rcache[f]; ok {
			return s
		}
	}
	m.stack[f] = true
	defer delete(m.stack, f)
	var decide func(ifi *ssa.If) (int, bool)
	if m.unroll && m.decide != nil {
		decide = m.decide
	}
	seqs, ok := core.SuccessSeqs(f, core.SeqOpts{EdgeLabel: wireEdgeLabel, Decide: decide, Classify: func(in ssa.Instruction, inLoop bool) []string {
		call, ok := in.(*ssa.Call)
		if !ok {
			return nil
		}
		var out []string
		switch {
		case call.Call.StaticCallee() != nil && m.recur[call.Call.StaticCallee()] && (!m.unroll || m.stack[call.Call.StaticCallee()]):
			var args []string
			for _, a := range call.Call.Args[1:] {
				args = append(args, core.Sym(a))
			}
			out = []string{"call:" + core.CanonName(call.Call.StaticCallee()) + "(" + strings.Join(args, ",") + ")"}
		case call.Call.StaticCallee() != nil && m.recur[call.Call.StaticCallee()] && m.unroll:
			// expand a cycle member in place, once
			callee := call.Call.StaticCallee()
			var args []string
			for _, a := range call.Call.Args {
				args = append(args, core.Sym(a))
			}
			savedDecide := m.decide
			m.decide = nil // keys are fixed for the root only
			sub := m.RSeqs(callee)
			m.decide = savedDecide
			var alts []string
			for _, s := range sub {
				var es []string
				for _, e := range s {
					es = append(es, mapDests(substitute(e, args), call))
				}
				alts = append(alts, strings.Join(es, " "))
			}
			sort.Strings(alts)
			if len(alts) == 1 {
				if alts[0] != "" {
					out = strings.Split(alts[0], " ")
				}
			} else {
				out = []string{"alt{" + strings.Join(alts, "|") + "}"}
			}
		case core.IsFullRead(call) && f == m.rprim:
			out = []string{"RAWREAD($1)"}
		case core.IsCallTo(call, "io", "CopyN"):
			out = []string{"copyN(" + core.Sym(call.Call.Args[2]) + ")"}
		case call.Call.StaticCallee() == nil && !call.Call.IsInvoke():
			// dynamic call through a field: sr.discard(n)
			if fld, _ := core.LoadedField(call.Call.Value); fld != nil && len(call.Call.Args) == 1 {
				out = []string{core.FieldName(fld) + "(" + core.Sym(call.Call.Args[0]) + ")"}
			}
		case call.Call.IsInvoke() && call.Call.Method.Name() == "Seek":
			out = []string{"seek(" + core.Sym(call.Call.Args[0]) + ")"}
		default:
			callee := call.Call.StaticCallee()
			if callee == nil || core.PkgRel(callee) != "protocol/binary" {
				return nil
			}
			switch recvNamed(callee) {
			case "StreamReader", "reader", "Reader":
			default:
				return nil
			}
			if len(callee.Blocks) == 0 {
				return nil
			}
			if callee == m.rprim {
				bs := call.Call.Args[1]
				if w, ok := core.ConstSliceWidth(bs); ok {
					out = []string{m.readResult(bs, w)}
				} else if mk, ok := bs.(*ssa.MakeSlice); ok {
					out = []string{"readfull(make(" + core.Sym(mk.Len) + "))→" + dests(mk)}
				} else {
					out = []string{"readfull(?" + core.Sym(bs) + ")"}
				}
			} else {
				var args []string
				for _, a := range call.Call.Args {
					args = append(args, core.Sym(a))
				}
				sub := m.RSeqs(callee)
				if len(sub) == 1 && len(sub[0]) == 0 {
					// a helper without any wire event (e.g. a constructor): nothing to record
					return nil
				}
				if recvNamed(callee) != "StreamReader" || len(sub) > 3 {
					out = []string{"call:" + core.CanonName(callee) + "(" + strings.Join(args[1:], ",") + ")"}
				} else if len(sub) == 1 {
					for _, e := range sub[0] {
						out = append(out, mapDests(substitute(e, args), call))
					}
				} else {
					var alts []string
					for _, s := range sub {
						var es []string
						for _, e := range s {
							es = append(es, mapDests(substitute(e, args), call))
						}
						alts = append(alts, strings.Join(es, " "))
					}
					sort.Strings(alts)
					out = []string{"alt{" + strings.Join(alts, "|") + "}"}
				}
			}
		}
		if inLoop {
			for i := range out {
				out[i] = "loop:" + out[i]
			}
		}
		return out
	}})
	if !ok {
		seqs = [][]string{{"TOO-MANY-PATHS"}}
	}
	if !m.unroll {
		m.rcache[f] = seqs
	}
	return seqs
}

// method returns the SSA function for a method of a type in protocol/binary.
func (m *wireModel) method(typ, name string) *ssa.Function {
	return m.c.SSAFunc(m.c.LookupFunc("protocol/binary", typ+"."+name))
}

// wireEdgeLabel labels the true edge of `x == K` for a wire.Type constant K
// with case:K, and both edges of a test on a bool parameter.
func wireEdgeLabel(ifi *ssa.If, idx int) string {
	switch cond := ifi.Cond.(type) {
	case *ssa.BinOp:
		if cond.Op == token.EQL && idx == 0 {
			if k, ok := core.ConstInt(cond.Y); ok && core.TypeLabel(cond.Y.Type()) == "wire.Type" {
				return fmt.Sprintf("case:%d", k)
			}
		}
		if call, ok := cond.X.(*ssa.Call); ok && call.Call.StaticCallee() != nil && core.CanonName(call.Call.StaticCallee()) == "fixedWidth" && len(call.Call.Args) == 1 {
			if k, ok := core.ConstInt(cond.Y); ok {
				s := fmt.Sprintf("fw(%s)%s%d", core.Sym(call.Call.Args[0]), cond.Op, k)
				if idx == 1 {
					s = "!" + s
				}
				return s
			}
		}
	case *ssa.Parameter:
		if idx == 0 {
			return "if(" + core.Sym(cond) + ")"
		}
		return "if(!" + core.Sym(cond) + ")"
	}
	return ""
}

var normRepl = strings.NewReplacer(
	"(*protocol/binary.StreamReader).", "sr.",
	"(*protocol/binary.StreamWriter).", "sw.",
	"(*protocol/binary.Reader).", "Reader.",
	"(*wire.Value).", "v.",
	"(wire.ValueList).", "vl.",
	"(wire.MapItemList).", "ml.",
	"protocol/binary.", "",
)

func normSeqs(seqs [][]string) string {
	return normRepl.Replace(core.SeqString(seqs))
}
