package rules

import (
	"sort"
	"strings"

	"golang.org/x/tools/go/ssa"

	"verif/internal/core"
)

// writeSignature: what Writer.WriteValue(v) puts on the wire when v.Type() is
// the given code — the value-based serializer's framing per wire type — with
// every unexported helper of the package explored in place and callbacks given
// to ForEach resolved (closures, method values, function-typed fields of the
// writer through the stores that bind them). Names of helpers, fields and
// locals do not occur in the result.
func (m *wireModel) writeSignature(code int64) string {
	root := m.method("Writer", "WriteValue")
	if root == nil || len(root.Params) != 2 {
		return "?"
	}
	core.SymInvokeRecv = true
	defer func() { core.SymInvokeRecv = false }()
	var explore func(f *ssa.Function, decide func(*ssa.If) (int, bool), depth int) string
	// the function a ForEach callback value denotes
	var callbackFn func(v ssa.Value, depth int) *ssa.Function
	callbackFn = func(v ssa.Value, depth int) *ssa.Function {
		if depth > 3 {
			return nil
		}
		switch x := v.(type) {
		case *ssa.Function:
			return x
		case *ssa.MakeClosure:
			fn, _ := x.Fn.(*ssa.Function)
			if fn != nil && strings.HasSuffix(fn.Name(), "$bound") {
				var target *ssa.Function
				core.Instrs(fn, func(in ssa.Instruction) {
					if call, ok := in.(ssa.CallInstruction); ok && call.Common().StaticCallee() != nil {
						target = call.Common().StaticCallee()
					}
				})
				return target
			}
			return fn
		case *ssa.ChangeType:
			return callbackFn(x.X, depth+1)
		case *ssa.UnOp:
			fld, base := core.LoadedField(x)
			if fld == nil {
				return nil
			}
			_ = base
			// every store to this field in the package must bind the same function, on the object itself
			var target *ssa.Function
			ok := true
			n := 0
			for _, g := range m.c.AllFuncs("protocol/binary") {
				core.Instrs(g, func(in ssa.Instruction) {
					st, isSt := in.(*ssa.Store)
					if !isSt {
						return
					}
					fa, isFA := st.Addr.(*ssa.FieldAddr)
					if !isFA || core.FieldOf(fa) != fld {
						return
					}
					n++
					t := callbackFn(st.Val, depth+1)
					if mc, isMC := st.Val.(*ssa.MakeClosure); isMC && len(mc.Bindings) == 1 {
						if core.Unop(mc.Bindings[0]) != core.Unop(fa.X) {
							ok = false // bound to another object's method
						}
					}
					if t == nil || (target != nil && t != target) {
						ok = false
					}
					target = t
				})
			}
			if !ok || n == 0 {
				return nil
			}
			return target
		}
		return nil
	}
	explore = func(f *ssa.Function, decide func(*ssa.If) (int, bool), depth int) string {
		seqs, ok := core.SuccessSeqs(f, core.SeqOpts{
			EdgeLabel: wireEdgeLabel,
			Decide:    decide,
			Inline: func(caller, callee *ssa.Function) bool {
				return callee != root && core.PkgRel(callee) == "protocol/binary" && recvNamed(callee) != "StreamWriter"
			},
			Classify: func(in ssa.Instruction, inLoop bool) []string {
				call, ok := in.(*ssa.Call)
				if !ok {
					return nil
				}
				lp := ""
				if inLoop {
					lp = "loop:"
				}
				if call.Call.IsInvoke() && call.Call.Method.Name() == "ForEach" && len(call.Call.Args) == 1 {
					body := "?"
					if h := callbackFn(call.Call.Args[0], 0); h != nil && depth < 2 {
						if h == root {
							body = "call:WriteValue($1)"
						} else {
							body = explore(h, nil, depth+1)
						}
					}
					return []string{lp + "foreach:" + core.Sym(call.Call.Value) + "{" + body + "}"}
				}
				callee := call.Call.StaticCallee()
				if callee == nil || core.PkgRel(callee) != "protocol/binary" {
					return nil
				}
				if callee == root {
					return []string{lp + "call:WriteValue(" + core.Sym(call.Call.Args[1]) + ")"}
				}
				if recvNamed(callee) != "StreamWriter" {
					return nil
				}
				var out []string
				if callee == m.wprim {
					out = []string{m.writeArg(call.Call.Args[1])}
				} else {
					sub := m.WSeqs(callee)
					var args []string
					for _, a := range call.Call.Args {
						args = append(args, core.Sym(a))
					}
					if len(sub) == 1 {
						for _, e := range sub[0] {
							out = append(out, substitute(e, args))
						}
					} else {
						var alts []string
						for _, s := range sub {
							var es []string
							for _, e := range s {
								es = append(es, substitute(e, args))
							}
							alts = append(alts, strings.Join(es, " "))
						}
						sort.Strings(alts)
						out = []string{"alt{" + strings.Join(alts, "|") + "}"}
					}
				}
				for i := range out {
					out[i] = lp + out[i]
				}
				return out
			},
		})
		if !ok {
			return "TOO-MANY-PATHS"
		}
		var alts []string
		for _, s := range seqs {
			alts = append(alts, strings.Join(s, " "))
		}
		sort.Strings(alts)
		return strings.Join(alts, " | ")
	}
	return explore(root, func(ifi *ssa.If) (int, bool) {
		return m.c.ConstCond(ifi, func(v ssa.Value) (core.CVal, bool) {
			if call, ok := v.(*ssa.Call); ok {
				if cal := call.Call.StaticCallee(); cal != nil && cal.Name() == "Type" && len(call.Call.Args) == 1 && core.Sym(call.Call.Args[0]) == "$1" {
					return core.CVal{Kind: core.CInt, I: code}, true
				}
			}
			return core.CVal{}, false
		})
	}, 0)
}
