package rules

import (
	"fmt"
	"os"
	"path/filepath"
	"regexp"
	"sort"
	"strings"

	"verif/internal/core"
)

// checkActionUsesAll (ACTION-USES): the tree "has exactly the structure of the
// source" only if no grammar action drops a parsed component. From the grammar
// (idl/internal/thrift.y): for every production with an action, every
// right-hand-side symbol that carries a semantic value (a token or non-terminal
// declared with a <type>) is referred to ($k) in the action. The same is then
// required of the generated parser (y.go): the action of the corresponding case
// mentions yyDollar[k] for the same k — so that grammar and generated code
// agree.
func checkActionUsesAll(c *core.Ctx, l *core.Ledger) {
	src, err := os.ReadFile(filepath.Join(c.Cfg.RepoDir, "idl", "internal", "thrift.y"))
	if err != nil {
		l.Unk("ACTION-USES", "anchor", "", "idl/internal/thrift.y not readable")
		return
	}
	text := string(src)
	parts := strings.SplitN(text, "\n%%", 3)
	if len(parts) < 2 {
		l.Unk("ACTION-USES", "anchor", "", "no %% section in thrift.y")
		return
	}
	typed := map[string]bool{}
	for _, m := range regexp.MustCompile(`(?m)^%(?:type|token)\s*<\w+>\s*(.*)$`).FindAllStringSubmatch(parts[0], -1) {
		for _, s := range strings.Fields(m[1]) {
			typed[s] = true
		}
	}
	// tokenise the rules section
	rules := parts[1]
	type alt struct {
		lhs    string
		rhs    []string
		action string
		line   int
	}
	var alts []alt
	i, line := 0, strings.Count(parts[0], "\n")+2
	n := len(rules)
	skipSpace := func() {
		for i < n {
			switch {
			case rules[i] == '\n':
				line++
				i++
			case rules[i] == ' ' || rules[i] == '\t' || rules[i] == '\r':
				i++
			case strings.HasPrefix(rules[i:], "//"):
				for i < n && rules[i] != '\n' {
					i++
				}
			case strings.HasPrefix(rules[i:], "/*"):
				for i < n && !strings.HasPrefix(rules[i:], "*/") {
					if rules[i] == '\n' {
						line++
					}
					i++
				}
				i += 2
			default:
				return
			}
		}
	}
	ident := regexp.MustCompile(`^[A-Za-z_][A-Za-z_0-9]*`)
	lhs := ""
	var cur *alt
	flush := func() {
		if cur != nil {
			alts = append(alts, *cur)
			cur = nil
		}
	}
	for {
		skipSpace()
		if i >= n {
			break
		}
		ch := rules[i]
		switch {
		case ch == '{':
			// action: balanced braces, strings, runes, comments
			depth, start := 0, i
			for i < n {
				switch rules[i] {
				case '{':
					depth++
				case '}':
					depth--
				case '\n':
					line++
				case '"':
					i++
					for i < n && rules[i] != '"' {
						if rules[i] == '\\' {
							i++
						}
						i++
					}
				case '\'':
					i++
					for i < n && rules[i] != '\'' {
						if rules[i] == '\\' {
							i++
						}
						i++
					}
				case '`':
					i++
					for i < n && rules[i] != '`' {
						i++
					}
				}
				i++
				if depth == 0 {
					break
				}
			}
			if cur != nil {
				cur.action += rules[start:i]
			}
		case ch == '|':
			flush()
			cur = &alt{lhs: lhs, line: line}
			i++
		case ch == ';':
			flush()
			lhs = ""
			i++
		case ch == '\'':
			j := i + 1
			for j < n && rules[j] != '\'' {
				if rules[j] == '\\' {
					j++
				}
				j++
			}
			if cur != nil {
				cur.rhs = append(cur.rhs, rules[i:j+1])
			}
			i = j + 1
		default:
			m := ident.FindString(rules[i:])
			if m == "" {
				i++
				continue
			}
			i += len(m)
			save := i
			skipSpace()
			if lhs == "" && i < n && rules[i] == ':' {
				lhs = m
				i++
				cur = &alt{lhs: lhs, line: line}
				continue
			}
			i = save
			if cur != nil {
				cur.rhs = append(cur.rhs, m)
			}
		}
	}
	flush()
	if len(alts) < 60 {
		l.Unk("ACTION-USES", "grammar", "", fmt.Sprintf("only %d productions parsed from thrift.y (more than 60 confirmed by hand)", len(alts)))
		return
	}
	// generated parser: case N: … yyDollar = yyS[yypt-L : yypt+1] … per production (goyacc numbers them from 1 in order)
	ysrc, _ := os.ReadFile(filepath.Join(c.Cfg.RepoDir, "idl", "internal", "y.go"))
	cases := map[int]string{}
	if m := regexp.MustCompile(`(?s)switch yynt \{(.*)\n\t\}\n\tgoto yystack`).FindStringSubmatch(string(ysrc)); m != nil {
		chunks := regexp.MustCompile(`(?m)^\tcase (\d+):$`).FindAllStringSubmatchIndex(m[1], -1)
		for k, ch := range chunks {
			end := len(m[1])
			if k+1 < len(chunks) {
				end = chunks[k+1][0]
			}
			var num int
			fmt.Sscanf(m[1][ch[2]:ch[3]], "%d", &num)
			cases[num] = m[1][ch[1]:end]
		}
	}
	nChecked := 0
	for idx, a := range alts {
		prod := idx + 1
		if a.action == "" {
			continue
		}
		var carriers []int
		for k, sym := range a.rhs {
			if typed[sym] {
				carriers = append(carriers, k+1)
			}
		}
		if len(carriers) == 0 {
			continue
		}
		nChecked++
		var miss, missGen []string
		for _, k := range carriers {
			if !regexp.MustCompile(`\$` + fmt.Sprint(k) + `\b`).MatchString(a.action) {
				miss = append(miss, fmt.Sprintf("$%d (%s)", k, a.rhs[k-1]))
			}
			if body, has := cases[prod]; has {
				if !strings.Contains(body, fmt.Sprintf("yyDollar[%d]", k)) {
					missGen = append(missGen, fmt.Sprintf("yyDollar[%d] (%s)", k, a.rhs[k-1]))
				}
			} else if len(cases) > 0 {
				missGen = append(missGen, "no case "+fmt.Sprint(prod)+" in y.go")
			}
		}
		key := fmt.Sprintf("%s#%d", a.lhs, prod)
		why := ""
		if len(miss) > 0 {
			why = "the action never refers to " + strings.Join(miss, ", ") + ": that part of the source is parsed and then dropped from the tree"
		}
		if len(missGen) > 0 {
			if why != "" {
				why += "; "
			}
			why += "generated parser: " + strings.Join(missGen, ", ") + " unused"
		}
		l.Check(why == "", "ACTION-USES", key, fmt.Sprintf("idl/internal/thrift.y:%d", a.line), "the action uses every value-carrying symbol of its production: "+strings.Join(a.rhs, " "), why)
	}
	_ = sort.Strings
	l.Floor("ACTION-USES", 40)
}
