package tmpl

import (
	"fmt"
	"go/ast"
	"go/parser"
	"go/token"
	"sort"
	"strings"
	"text/template/parse"
)

// Syntactic category of what a template function's output stands for in the
// generated Go text. Placeholders are rendered accordingly so that every
// variant is parseable Go:
//
//	catIdent: an identifier            ƒname·arg·arg
//	catType:  a type                   Ƭname·arg
//	catExpr:  an expression / value list   ƒname(arg, arg)  (string arguments are spliced in as Go expressions)
//	catStmt:  a statement              ƒname(arg, arg)
//	catBool:  only used in conditions (atom)
//	catText:  free text inside a literal or comment
const (
	catIdent = iota
	catType
	catExpr
	catStmt
	catBool
	catText
	catEmpty
	catParams
	catData
)

// funcCategory is the abstract model table: the category of each template
// function's result. The thorough tier checks it against the Go result type
// and the call sites (see rules: TMPL-MODEL).
var funcCategory = map[string]int{
	"goName": catIdent, "goCase": catIdent, "import": catIdent, "newVar": catIdent, "enumItemName": catIdent, "declFieldName": catIdent,
	"zapEncoder": catIdent, "constantName": catIdent, "typeName": catType, "typeReference": catType, "typeReferencePtr": catType,
	"toWire": catExpr, "toWirePtr": catExpr, "fromWire": catExpr, "encode": catExpr, "encodePtr": catExpr, "decode": catExpr,
	"typeCode": catExpr, "equals": catExpr, "equalsPtr": catExpr, "zapMarshaler": catExpr, "zapMarshalerPtr": catExpr,
	"constantValue": catExpr, "constantValuePtr": catExpr, "enumItemValue": catExpr,
	"fromWirePtr": catStmt, "decodePtr": catStmt,
	"isHashable": catBool, "setUsesMap": catBool, "isListType": catBool, "isPrimitiveType": catBool, "isStringType": catBool, "isStructType": catBool,
	"isNotNil": catBool, "shouldRedact": catBool, "zapOptOut": catBool, "shouldGenerateIsSet": catBool, "zapTypedefHasGeneratedMarshaler": catBool,
	"checkEnumTextMarshalStrict": catBool, "checkNoZap": catBool,
	"formatDoc": catEmpty, "reserveFieldOrMethod": catEmpty,
	"fieldLabel": catText, "redactedContent": catText, "tag": catText,
	"zapTypedefGenerateMarshaler": catExpr,
	"namePrefix":                  catIdent, "params": catParams, "newArgs": catExpr, "isException": catExpr, "wrapResponse": catExpr, "unwrapResponse": catExpr,
	"enumItemLabelName": catText, "zapMapItemMarshaler": catExpr, "canBeConstant": catBool, "index": catData,
}

// Options for one expansion.
type Options struct {
	Elems    int // abstract elements per range (1 quick, 2 thorough)
	MaxAtoms int
}

// Variant is one abstract instance of a template.
type Variant struct {
	Atoms     map[string]bool
	Consulted map[string]bool // atoms the template actually tested in this assignment
	Src       string
	File      *ast.File
	Fset      *token.FileSet
	Err       error
}

// Expansion holds all variants of one template.
type Expansion struct {
	T        *Template
	Atoms    []string
	Variants []*Variant
	Capped   bool
	Unknown  []string // constructs the expander had no model for
}

type sval struct {
	s      string // rendering
	isData bool   // abstract data value (spec object), rendered as identifier
	isStr  bool   // Go source text
}

type env struct {
	x       *Expansion
	vars    map[string]sval
	atoms   map[string]bool
	seen    map[string]bool
	dot     sval
	elems   int
	rangeID map[string]int
}

func ident(parts ...string) string {
	var b strings.Builder
	for i, p := range parts {
		if i > 0 {
			b.WriteString("ˑ")
		}
		for _, r := range p {
			switch {
			case r >= 'a' && r <= 'z', r >= 'A' && r <= 'Z', r >= '0' && r <= '9', r == '_', r > 127:
				b.WriteRune(r)
			default:
				b.WriteRune('ˑ')
			}
		}
	}
	return b.String()
}

func (e *env) unknown(s string) {
	for _, u := range e.x.Unknown {
		if u == s {
			return
		}
	}
	e.x.Unknown = append(e.x.Unknown, s)
}

func (e *env) evalArg(n parse.Node) sval {
	switch a := n.(type) {
	case *parse.StringNode:
		return sval{s: a.Text, isStr: true}
	case *parse.NumberNode:
		return sval{s: a.Text, isStr: true}
	case *parse.BoolNode:
		return sval{s: fmt.Sprint(a.True), isStr: true}
	case *parse.DotNode:
		return e.dot
	case *parse.FieldNode:
		return sval{s: e.dot.s + "ˑ" + strings.Join(a.Ident, "ˑ"), isData: true}
	case *parse.VariableNode:
		v, ok := e.vars[a.Ident[0]]
		if !ok {
			e.unknown("unbound variable " + a.Ident[0])
			v = sval{s: "VAR" + ident(a.Ident[0]), isStr: true}
		}
		if len(a.Ident) > 1 {
			if v.isData {
				return sval{s: v.s + "ˑ" + strings.Join(a.Ident[1:], "ˑ"), isData: true}
			}
			// method on a variable without arguments
			return e.method(v, a.Ident[1], nil)
		}
		return v
	case *parse.PipeNode:
		return e.evalPipe(a)
	case *parse.IdentifierNode:
		return e.call(a.Ident, nil)
	case *parse.ChainNode:
		v := e.evalArg(a.Node)
		return sval{s: v.s + "ˑ" + strings.Join(a.Field, "ˑ"), isData: v.isData}
	case *parse.NilNode:
		return sval{s: "nil", isStr: true}
	}
	e.unknown(fmt.Sprintf("argument node %T", n))
	return sval{s: "UNK", isStr: true}
}

func (e *env) method(recv sval, name string, args []sval) sval {
	switch name {
	case "NewName", "Rotate":
		if len(args) == 1 {
			return sval{s: ident(args[0].s), isStr: true}
		}
	}
	var as []string
	for _, a := range args {
		as = append(as, a.s)
	}
	return sval{s: ident(append([]string{recv.s, name}, as...)...), isStr: true}
}

func (e *env) evalPipe(p *parse.PipeNode) sval {
	if p == nil {
		return sval{}
	}
	var v sval
	for i, c := range p.Cmds {
		v = e.evalCmd(c, v, i > 0)
	}
	for _, d := range p.Decl {
		e.vars[d.Ident[0]] = v
	}
	if len(p.Decl) > 0 {
		return sval{}
	}
	return v
}

func (e *env) evalCmd(c *parse.CommandNode, prev sval, hasPrev bool) sval {
	first := c.Args[0]
	var args []sval
	for _, a := range c.Args[1:] {
		args = append(args, e.evalArg(a))
	}
	if hasPrev {
		args = append(args, prev)
	}
	switch f := first.(type) {
	case *parse.IdentifierNode:
		return e.call(f.Ident, args)
	case *parse.VariableNode:
		if len(f.Ident) > 1 && len(args) > 0 {
			v, ok := e.vars[f.Ident[0]]
			if !ok {
				v = sval{s: "VAR" + ident(f.Ident[0])}
			}
			return e.method(v, f.Ident[1], args)
		}
	case *parse.FieldNode:
		if len(args) > 0 {
			return e.method(e.dot, strings.Join(f.Ident, "ˑ"), args)
		}
	}
	return e.evalArg(first)
}

func argText(a sval) string {
	if a.isData {
		return a.s
	}
	return a.s
}

func (e *env) call(fn string, args []sval) sval {
	switch fn {
	case "newVar":
		if len(args) == 1 {
			return sval{s: ident(args[0].s), isStr: true}
		}
	case "newNamespace":
		return sval{s: "NS", isStr: true}
	case "import":
		if len(args) == 1 {
			parts := strings.Split(args[0].s, "/")
			return sval{s: ident(parts[len(parts)-1]), isStr: true}
		}
	case "printf", "print":
		if len(args) == 0 {
			return sval{isStr: true}
		}
		if fn == "print" {
			var b strings.Builder
			for _, a := range args {
				b.WriteString(a.s)
			}
			return sval{s: b.String(), isStr: true}
		}
		f := args[0].s
		rest := args[1:]
		var b strings.Builder
		for i := 0; i < len(f); i++ {
			if f[i] == '%' && i+1 < len(f) {
				if f[i+1] == '%' {
					b.WriteByte('%')
					i++
					continue
				}
				verb := f[i+1]
				i++
				if len(rest) == 0 {
					b.WriteString("MISSING")
					continue
				}
				a := rest[0]
				rest = rest[1:]
				if verb == 'q' {
					b.WriteString(`"` + a.s + `"`)
				} else {
					b.WriteString(a.s)
				}
				continue
			}
			b.WriteByte(f[i])
		}
		return sval{s: b.String(), isStr: true}
	case "lessthan":
		return sval{s: "<", isStr: true}
	case "len":
		if len(args) == 1 {
			key := "lenʃ" + args[0].s
			if e.atom(key) {
				return sval{s: fmt.Sprint(e.elems), isStr: true}
			}
			return sval{s: "0", isStr: true}
		}
	case "zapEncodeBegin":
		if len(args) == 1 && e.atom("ƒzapWrapsʃ"+args[0].s) {
			return sval{s: "err = ƒmultierrAppend(err, ", isStr: true}
		}
		return sval{isStr: true}
	case "zapEncodeEnd":
		if len(args) == 1 && e.atom("ƒzapWrapsʃ"+args[0].s) {
			return sval{s: ")", isStr: true}
		}
		return sval{isStr: true}
	}
	cat, known := funcCategory[fn]
	if !known {
		e.unknown("function " + fn)
		cat = catExpr
	}
	var names []string
	var exprs []string
	for _, a := range args {
		names = append(names, a.s)
		exprs = append(exprs, a.s)
	}
	switch cat {
	case catEmpty:
		return sval{isStr: true}
	case catParams:
		return sval{s: "ƒ" + fn + "ʃ" + ident(names...) + " Ƭ" + fn + "ʃ" + ident(names...), isStr: true}
	case catData:
		return sval{s: ident(append([]string{"ι"}, names...)...), isData: true}
	case catText:
		if fn == "tag" {
			return sval{s: "`ƒtag·" + ident(names...) + "`", isStr: true}
		}
		return sval{s: "ƒ" + ident(append([]string{fn}, names...)...), isStr: true}
	case catIdent:
		return sval{s: "ƒ" + fn + "ʃ" + ident(names...), isStr: true}
	case catType:
		return sval{s: "Ƭ" + fn + "ʃ" + ident(names...), isStr: true}
	case catBool:
		return sval{s: "ƒ" + fn + "ʃ" + ident(names...), isStr: true}
	default: // expr / stmt
		return sval{s: "ƒ" + fn + "(" + strings.Join(exprs, ", ") + ")", isStr: true}
	}
}

func (e *env) atom(k string) bool {
	e.seen[k] = true
	return e.atoms[k]
}

func (e *env) cond(p *parse.PipeNode) bool {
	if len(p.Cmds) != 1 {
		return e.atom(ident(p.String()))
	}
	// declarations inside if: <if $x := ...>
	r := e.condCmd(p.Cmds[0])
	return r
}

func (e *env) condNode(n parse.Node) bool {
	if p, ok := n.(*parse.PipeNode); ok {
		return e.cond(p)
	}
	v := e.evalArg(n)
	if v.s == "true" {
		return true
	}
	if v.s == "false" {
		return false
	}
	return e.atom(v.s)
}

func (e *env) condCmd(c *parse.CommandNode) bool {
	if id, ok := c.Args[0].(*parse.IdentifierNode); ok {
		switch id.Ident {
		case "not":
			return !e.condNode(c.Args[1])
		case "and":
			r := true
			for _, a := range c.Args[1:] {
				if !e.condNode(a) {
					r = false
				}
			}
			return r
		case "or":
			r := false
			for _, a := range c.Args[1:] {
				if e.condNode(a) {
					r = true
				}
			}
			return r
		case "len":
			return e.atom("lenʃ" + e.evalArg(c.Args[1]).s)
		case "eq", "ne":
			var as []string
			for _, a := range c.Args[1:] {
				as = append(as, e.evalArg(a).s)
			}
			r := e.atom("eqʃ" + ident(as...))
			if id.Ident == "ne" {
				return !r
			}
			return r
		}
		if len(c.Args) == 1 {
			v := e.call(id.Ident, nil)
			return e.atom(v.s)
		}
	}
	if len(c.Args) == 1 {
		return e.condNode(c.Args[0])
	}
	v := e.evalCmd(c, sval{}, false)
	return e.atom(v.s)
}

func (e *env) walk(n parse.Node, out *strings.Builder) {
	switch x := n.(type) {
	case *parse.ListNode:
		if x == nil {
			return
		}
		for _, c := range x.Nodes {
			e.walk(c, out)
		}
	case *parse.TextNode:
		out.Write(x.Text)
	case *parse.ActionNode:
		v := e.evalPipe(x.Pipe)
		out.WriteString(v.s)
	case *parse.IfNode:
		if e.cond(x.Pipe) {
			e.walk(x.List, out)
		} else if x.ElseList != nil {
			e.walk(x.ElseList, out)
		}
	case *parse.RangeNode:
		coll := e.evalPipe(&parse.PipeNode{Cmds: x.Pipe.Cmds})
		n := e.elems
		// an emptiness test on the same collection (anywhere in the template)
		// binds the iteration count
		if v, known := e.atoms["lenʃ"+coll.s]; known && !v {
			n = 0
		}
		if v, known := e.atoms[coll.s]; known && !v {
			n = 0
		}
		e.seen["range:"+coll.s] = true
		old := e.dot
		for i := 1; i <= n; i++ {
			el := sval{s: fmt.Sprintf("ε%d%s", i, ident(strings.TrimPrefix(coll.s, "δ"))), isData: true}
			e.dot = el
			switch len(x.Pipe.Decl) {
			case 1:
				e.vars[x.Pipe.Decl[0].Ident[0]] = el
			case 2:
				e.vars[x.Pipe.Decl[0].Ident[0]] = sval{s: el.s + "ˑkey", isData: true}
				e.vars[x.Pipe.Decl[1].Ident[0]] = el
			}
			e.walk(x.List, out)
		}
		e.dot = old
		if n == 0 && x.ElseList != nil {
			e.walk(x.ElseList, out)
		}
	case *parse.WithNode:
		v := e.evalPipe(&parse.PipeNode{Cmds: x.Pipe.Cmds})
		if e.atom(v.s) {
			old := e.dot
			e.dot = v
			e.walk(x.List, out)
			e.dot = old
		} else if x.ElseList != nil {
			e.walk(x.ElseList, out)
		}
	case *parse.CommentNode:
	default:
		e.unknown(fmt.Sprintf("node %T", n))
	}
}

func (x *Expansion) run(atoms map[string]bool, elems int) (string, map[string]bool) {
	e := &env{x: x, vars: map[string]sval{}, atoms: atoms, seen: map[string]bool{}, dot: sval{s: "δ", isData: true}, elems: elems}
	var sb strings.Builder
	e.walk(x.T.Tree.Root, &sb)
	return sb.String(), e.seen
}

// Infeasible reports atom assignments that cannot occur. The constraints are
// facts about the generator's Go code, verified by rule TMPL-CONSTRAINTS.
func Infeasible(atoms map[string]bool) bool {
	for k, v := range atoms {
		if !v {
			continue
		}
		// Required ∧ HasDefault: compile.fieldRequiredness.isRequired returns
		// Requiredness==Required && Default==nil
		if strings.HasSuffix(k, "ˑRequired") {
			el := strings.TrimSuffix(k, "ˑRequired")
			if atoms["ƒisNotNilʃ"+el+"ˑDefault"] {
				return true
			}
		}
	}
	return false
}

// Expand enumerates all feasible atom assignments of the template.
func Expand(t *Template, o Options) *Expansion {
	if o.Elems == 0 {
		o.Elems = 1
	}
	if o.MaxAtoms == 0 {
		o.MaxAtoms = 12
	}
	x := &Expansion{T: t}
	// discover atoms: iterate to a fixed point, trying all-false, all-true and single-flip assignments
	atomSet := map[string]bool{}
	for iter := 0; iter < 8; iter++ {
		before := len(atomSet)
		var keys []string
		for k := range atomSet {
			keys = append(keys, k)
		}
		tries := []map[string]bool{{}}
		all := map[string]bool{}
		for _, k := range keys {
			all[k] = true
		}
		tries = append(tries, all)
		for _, k := range keys {
			one := map[string]bool{k: true}
			tries = append(tries, one)
			but := map[string]bool{}
			for _, k2 := range keys {
				if k2 != k {
					but[k2] = true
				}
			}
			tries = append(tries, but)
		}
		for _, a := range tries {
			_, seen := x.run(a, o.Elems)
			for k := range seen {
				if !strings.HasPrefix(k, "range:") {
					atomSet[k] = true
				}
			}
		}
		if len(atomSet) == before {
			break
		}
	}
	for k := range atomSet {
		x.Atoms = append(x.Atoms, k)
	}
	sort.Strings(x.Atoms)
	if len(x.Atoms) > o.MaxAtoms {
		x.Capped = true
		return x
	}
	for mask := 0; mask < 1<<len(x.Atoms); mask++ {
		atoms := map[string]bool{}
		for i, k := range x.Atoms {
			atoms[k] = mask&(1<<i) != 0
		}
		if Infeasible(atoms) {
			continue
		}
		src, seen := x.run(atoms, o.Elems)
		// Every assignment is kept (with all atoms), except that assignments differing only
		// in atoms that were not consulted AND yielding identical text are merged into the
		// one where the unconsulted atoms are false — rules still see those atoms (as false)
		// and can tell "not consulted" from the Consulted set.
		canon := map[string]bool{}
		skip := false
		for k, val := range atoms {
			if !seen[k] && val {
				skip = true // represented by the assignment with this atom false
			}
			canon[k] = val
		}
		if skip {
			continue
		}
		consulted := map[string]bool{}
		for k := range seen {
			if !strings.HasPrefix(k, "range:") {
				consulted[k] = true
			}
		}
		key := src
		_ = key
		v := &Variant{Atoms: canon, Src: src, Consulted: consulted}
		if t.Kind != "TextTemplate" {
			v.Fset = token.NewFileSet()
			v.File, v.Err = parser.ParseFile(v.Fset, "skeleton.go", "package x\n"+src, parser.ParseComments|parser.SkipObjectResolution)
		} else {
			// fragment: statements, expression (list), parameter list, composite elements
			v.Fset = token.NewFileSet()
			wrappers := [][2]string{
				{"package x\nfunc _() {\n", "\n}"},
				{"package x\nfunc _() {\n_ = ƒfrag(", ")\n}"},
				{"package x\nfunc _(", ") {}"},
				{"package x\nvar _ = ƒT{", "}"},
			}
			for _, w := range wrappers {
				v.File, v.Err = parser.ParseFile(v.Fset, "skeleton.go", w[0]+src+w[1], parser.SkipObjectResolution)
				if v.Err == nil {
					break
				}
			}
		}
		x.Variants = append(x.Variants, v)
	}
	return x
}

// AtomString renders a variant's atom assignment.
func (v *Variant) AtomString() string {
	var ks []string
	for k, b := range v.Atoms {
		if b {
			ks = append(ks, k)
		} else {
			ks = append(ks, "!"+k)
		}
	}
	sort.Strings(ks)
	return strings.Join(ks, " ")
}
