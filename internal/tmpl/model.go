// Package tmpl models the generator's text/template sources: extraction of
// every constant template from gen/*.go, binding of template function names to
// Go functions, and an abstract expansion into Go skeletons.
package tmpl

import (
	"fmt"
	"go/ast"
	"go/constant"
	"go/token"
	"go/types"
	"sort"
	"strings"
	"text/template/parse"

	"golang.org/x/tools/go/packages"
	"golang.org/x/tools/go/ssa"

	"verif/internal/core"
)

// Binding is what a template function name is bound to.
type Binding struct {
	Name    string
	Obj     *types.Func  // resolved Go function / method (nil for literals)
	Lit     *ast.FuncLit // function literal
	Expr    ast.Expr
	Curried bool // first parameter (Generator) is supplied by the engine
	Global  bool
}

// Template is one constant template at one call site.
type Template struct {
	ID       string // <enclosing decl>#<ordinal>
	Kind     string // TextTemplate, DeclareFromTemplate, EnsureDeclared
	Call     *ast.CallExpr
	Pkg      *packages.Package
	Decl     *ast.FuncDecl
	DeclName string
	Text     string
	Tree     *parse.Tree
	DataExpr ast.Expr
	DataType types.Type
	Funcs    map[string]*Binding // site-local TemplateFunc options
	Pos      token.Pos
}

// Model is the template model of package gen.
type Model struct {
	C         *core.Ctx
	Templates []*Template
	Global    map[string]*Binding
	Dynamic   []string // non-constant template sites outside the engine itself
	ByDecl    map[string][]*Template
}

var entryNames = map[string]bool{"TextTemplate": true, "DeclareFromTemplate": true, "EnsureDeclared": true}

func calleeFunc(info *types.Info, call *ast.CallExpr) *types.Func {
	switch f := ast.Unparen(call.Fun).(type) {
	case *ast.Ident:
		fn, _ := info.Uses[f].(*types.Func)
		return fn
	case *ast.SelectorExpr:
		if sel := info.Selections[f]; sel != nil {
			fn, _ := sel.Obj().(*types.Func)
			return fn
		}
		fn, _ := info.Uses[f.Sel].(*types.Func)
		return fn
	}
	return nil
}

// resolveFuncExpr resolves an expression denoting a function value.
func resolveFuncExpr(info *types.Info, e ast.Expr) (*types.Func, *ast.FuncLit, bool) {
	e = ast.Unparen(e)
	switch x := e.(type) {
	case *ast.Ident:
		fn, _ := info.Uses[x].(*types.Func)
		return fn, nil, false
	case *ast.SelectorExpr:
		if sel := info.Selections[x]; sel != nil {
			fn, _ := sel.Obj().(*types.Func)
			return fn, nil, false
		}
		fn, _ := info.Uses[x.Sel].(*types.Func)
		return fn, nil, false
	case *ast.FuncLit:
		return nil, x, false
	case *ast.CallExpr:
		// curryGenerator(f, g)
		if id, ok := x.Fun.(*ast.Ident); ok && id.Name == "curryGenerator" && len(x.Args) == 2 {
			fn, lit, _ := resolveFuncExpr(info, x.Args[0])
			curried := false
			if fn != nil {
				sig := fn.Type().(*types.Signature)
				if sig.Params().Len() > 0 && strings.HasSuffix(sig.Params().At(0).Type().String(), "gen.Generator") {
					curried = true
				}
			}
			return fn, lit, curried
		}
	}
	return nil, nil, false
}

// Extract builds the model (cached on the context).
func Extract(c *core.Ctx) *Model {
	if m, ok := c.Cache["tmpl"].(*Model); ok {
		return m
	}
	m := &Model{C: c, Global: map[string]*Binding{}, ByDecl: map[string][]*Template{}}
	p := c.Pkg("gen")
	info := p.TypesInfo
	for _, f := range p.Syntax {
		if c.IsTestFile(f.Pos()) {
			continue
		}
		for _, d := range f.Decls {
			fd, ok := d.(*ast.FuncDecl)
			if !ok || fd.Body == nil {
				continue
			}
			dn := core.DeclName(fd)
			n := 0
			ast.Inspect(fd.Body, func(nd ast.Node) bool {
				// the global FuncMap
				if cl, ok := nd.(*ast.CompositeLit); ok && dn == "generator.TextTemplate" {
					if t := info.TypeOf(cl); t != nil && strings.HasSuffix(t.String(), "template.FuncMap") {
						for _, el := range cl.Elts {
							kv, ok := el.(*ast.KeyValueExpr)
							if !ok {
								continue
							}
							tv := info.Types[kv.Key]
							if tv.Value == nil {
								continue
							}
							name := constant.StringVal(tv.Value)
							fn, lit, cur := resolveFuncExpr(info, kv.Value)
							m.Global[name] = &Binding{Name: name, Obj: fn, Lit: lit, Expr: kv.Value, Curried: cur, Global: true}
						}
					}
				}
				call, ok := nd.(*ast.CallExpr)
				if !ok {
					return true
				}
				fn := calleeFunc(info, call)
				if fn == nil || fn.Pkg() == nil || fn.Pkg().Path() != core.ModPath+"/gen" || !entryNames[fn.Name()] || len(call.Args) < 2 {
					return true
				}
				sig := fn.Type().(*types.Signature)
				if sig.Recv() == nil {
					return true
				}
				tv := info.Types[call.Args[0]]
				if tv.Value == nil {
					if !strings.HasPrefix(dn, "generator.") {
						m.Dynamic = append(m.Dynamic, dn+" at "+c.Rel(call.Pos()))
					}
					return true
				}
				n++
				t := &Template{ID: fmt.Sprintf("%s#%d", dn, n), Kind: fn.Name(), Call: call, Pkg: p, Decl: fd, DeclName: dn,
					Text: constant.StringVal(tv.Value), DataExpr: call.Args[1], DataType: info.TypeOf(call.Args[1]), Funcs: map[string]*Binding{}, Pos: call.Pos()}
				tr := parse.New(t.ID)
				tr.Mode = parse.SkipFuncCheck | parse.ParseComments
				if _, err := tr.Parse(t.Text, "<", ">", map[string]*parse.Tree{}); err != nil {
					core.Infraf("template %s at %s does not parse: %v", t.ID, c.Rel(call.Pos()), err)
				}
				t.Tree = tr
				for _, a := range call.Args[2:] {
					oc, ok := ast.Unparen(a).(*ast.CallExpr)
					if !ok {
						continue
					}
					ofn := calleeFunc(info, oc)
					if ofn == nil || ofn.Name() != "TemplateFunc" || len(oc.Args) != 2 {
						continue
					}
					ntv := info.Types[oc.Args[0]]
					if ntv.Value == nil {
						continue
					}
					name := constant.StringVal(ntv.Value)
					bfn, lit, _ := resolveFuncExpr(info, oc.Args[1])
					cur := false
					if bfn != nil {
						s := bfn.Type().(*types.Signature)
						if s.Params().Len() > 0 && strings.HasSuffix(s.Params().At(0).Type().String(), "gen.Generator") {
							cur = true
						}
					}
					t.Funcs[name] = &Binding{Name: name, Obj: bfn, Lit: lit, Expr: oc.Args[1], Curried: cur}
				}
				m.Templates = append(m.Templates, t)
				m.ByDecl[dn] = append(m.ByDecl[dn], t)
				return true
			})
		}
	}
	sort.Slice(m.Templates, func(i, j int) bool { return m.Templates[i].Pos < m.Templates[j].Pos })
	c.Cache["tmpl"] = m
	c.Units["templates"] = len(m.Templates)
	return m
}

// Lookup resolves a function name used in template t.
func (m *Model) Lookup(t *Template, name string) *Binding {
	if b := t.Funcs[name]; b != nil {
		return b
	}
	return m.Global[name]
}

// builtins of text/template that need no binding.
var builtinFuncs = map[string]bool{"and": true, "or": true, "not": true, "len": true, "printf": true, "print": true, "println": true, "index": true, "eq": true, "ne": true, "lt": true, "le": true, "gt": true, "ge": true, "call": true, "html": true, "js": true, "urlquery": true, "slice": true}

// FuncNames lists the function identifiers used in the template.
func (t *Template) FuncNames() []string {
	set := map[string]bool{}
	var walk func(n parse.Node)
	walk = func(n parse.Node) {
		switch x := n.(type) {
		case *parse.ListNode:
			if x != nil {
				for _, c := range x.Nodes {
					walk(c)
				}
			}
		case *parse.ActionNode:
			walk(x.Pipe)
		case *parse.PipeNode:
			if x != nil {
				for _, c := range x.Cmds {
					walk(c)
				}
			}
		case *parse.CommandNode:
			for _, a := range x.Args {
				walk(a)
			}
		case *parse.IdentifierNode:
			set[x.Ident] = true
		case *parse.IfNode:
			walk(x.Pipe)
			walk(x.List)
			walk(x.ElseList)
		case *parse.RangeNode:
			walk(x.Pipe)
			walk(x.List)
			walk(x.ElseList)
		case *parse.WithNode:
			walk(x.Pipe)
			walk(x.List)
			walk(x.ElseList)
		case *parse.ChainNode:
			walk(x.Node)
		}
	}
	walk(t.Tree.Root)
	var out []string
	for k := range set {
		out = append(out, k)
	}
	sort.Strings(out)
	return out
}

// Edges returns the call-graph edges from each function containing a template
// call to the Go functions the template invokes by reflection.
func Edges(c *core.Ctx) []core.CGEdge {
	m := Extract(c)
	var out []core.CGEdge
	ssaOf := func(fd *ast.FuncDecl) *ssa.Function {
		obj, _ := m.C.Pkg("gen").TypesInfo.Defs[fd.Name].(*types.Func)
		return c.SSAFunc(obj)
	}
	// closures: the template call may sit inside a function literal; attribute to the enclosing declaration (sound for reachability)
	for _, t := range m.Templates {
		from := ssaOf(t.Decl)
		if from == nil {
			continue
		}
		for _, name := range t.FuncNames() {
			if builtinFuncs[name] {
				continue
			}
			b := m.Lookup(t, name)
			if b == nil {
				continue
			}
			var to *ssa.Function
			if b.Obj != nil {
				to = c.SSAFunc(b.Obj)
			} else if b.Lit != nil {
				// find the anonymous function by position
				for _, f := range c.AllFuncs("gen") {
					if f.Syntax() == ast.Node(b.Lit) {
						to = f
					}
				}
			}
			if to != nil {
				out = append(out, core.CGEdge{From: from, To: to, Kind: "template", Note: "template function " + name + " in " + t.ID})
			}
		}
	}
	return out
}

func init() { core.ExtraEdges = Edges }
