# Per-property claims; exec'd by gen_manifest.py
NOTES = ("Technique family: static analysis only. Every claimed property is claimed at level 'other' for the structural clauses "
         "listed in level_claimed.text (necessary conditions visible in the shape of the code), never for the behaviour as a whole; "
         "DESIGN.md section 4 lists per property what is not decided. Exit 0 = all obligations discharged or listed in "
         "known_findings.txt; exit 1 = violated or undecided obligation; exit 2 = infrastructure failure (tree does not type-check, checker panic).")
NOT_APPLICABLE = {}
TRUST = "go/types, go/ssa (x/tools v0.29.0), VTA call graph plus hand-added reflection edges, text/template/parse, the checker itself and its frozen Thrift binary-protocol table; stdlib (encoding/binary, io.ReadFull/CopyN, math.Float64bits) assumed correct"

claim("C02",
      "Decides structural clauses only: wire type codes equal the Thrift table; every dispatch over wire.Type is exhaustive with a default; the ordered sequence of primitive writes/reads on every success path of each StreamWriter/StreamReader method (width, byte order, bound header field, extracted from SSA) equals the frozen Thrift binary-protocol row and writer/reader rows agree; wire.Value constructor/getter chain and per-type dispatch compose to the same rows; container framing, lazy-list header def-use, single write primitive, forward ForEach order, fixedWidth table. Does NOT decide value-level round-trip equality (NaN bits, large binaries at run time).",
      TRUST, "SSA success-path sequence extraction compared with a frozen protocol table; switch exhaustiveness; def-use", "DESIGN.md section 4 C02")

claim("C03",
      "Decides structural clauses on the decode scope D (computed per run from the gated call graph): every signed length read from the wire is sign-checked on all paths before any size/skip/bound use (interprocedural taint, dominance-by-edge sanitizers); every wire.Type dispatch in D is exhaustive with an error default; ReadBool accepts only 0/1; every loop is counted or input-consuming; every recursive cycle consumes input or is structural; a ledger of every potentially panicking SSA instruction in D, each discharged by a verified class; Skip consumes per wire type the same width sequence as ReadValue (fixedWidth table, header layouts, counted loops). Does NOT decide totality over all byte strings as such, stack depth on deep nesting, or prefix re-encoding equality.",
      TRUST + "; io.Reader contract 0<=n<=len(p)", "taint/dominance over SSA, loop and recursion certificates, panic-site ledger, sequence comparison", "DESIGN.md section 4 C03")

claim("C12",
      "Decides structural clauses only: strict and legacy envelope header layouts of both writers and both readers equal the frozen Thrift rows and share the version constant/mask; DecodeRequest and ReadRequest have identical (framing test => responder) arms equal to the frozen three-way classification, check the envelope type before succeeding and build responders whose Name/SeqID come from the decoded envelope; every responder re-wraps with its own framing echoing Name/SeqID; the envelope server mirrors name/seqid; no raw io.Reader.Read in protocol/binary (segmentation independence); borrowed stream readers/writers are released on all exits. Does NOT decide round-trip equality of names/bodies or multiplexing.",
      TRUST, "symbolic success-path traces over SSA compared between sibling functions and with a frozen table; who-may-call rule with witness; pairing on all exits", "DESIGN.md section 4 C12")

claim("C13",
      "Decides one structural clause: no allocation is sized by a length or count taken from the wire unless a comparison of that length against a compile-time constant (or a constant-like package variable) dominates the allocating branch — interprocedural field-based taint over the decode scope (stream reader, envelope readers, frame reader), plus: lazy containers are built from a wire count only after the skip pass over that many items succeeded; the same rule on the generator's container Decoder/Reader templates when the template model is active. Does NOT decide that work is linear in N nor the numeric factor.",
      TRUST, "interprocedural taint (SSA) from wire lengths to allocation sizes with dominating constant-bound sanitizers", "DESIGN.md section 4 C13")

claim("C09",
      "Decides structural clauses only: every narrowing integer conversion of a source number in compile/gen/ast/idl (generated tables excluded) is dominated by tests of both bounds of the target type; ConstantInt.Link accepts a value for i8/i16/i32 only under that width's range test; every insertion into fields/items/functions/module tables is dominated by a successful namespace claim (and the used-id test for fields); claim fails iff the name is present. Does NOT decide implicit enum numbering arithmetic, parser overflow handling or self-reference (C08).",
      TRUST, "SSA dominance-by-edge of range guards over narrowing conversions and accepting arms; insertion sites dominated by successful claim", "DESIGN.md section 4 C09")
