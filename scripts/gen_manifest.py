#!/usr/bin/env python3
"""Generates /verif/MANIFEST.json from the table below (single source of truth)."""
import json, os, sys
V = os.path.dirname(os.path.dirname(os.path.abspath(__file__)))
ENV = "GOFLAGS=-mod=mod GOPROXY=off GOSUMDB=off GOTOOLCHAIN=local GOWORK=off"
CLAIMS = {}
def claim(pid, text, note, technique, ref):
    CLAIMS[pid] = dict(text=text, note=note, technique=technique, ref=ref)

exec(open(os.path.join(V, "scripts", "claims.py")).read())

ALL = ["C%02d" % i for i in range(1, 21)]
checks = []
for pid in ALL:
    if pid not in CLAIMS:
        continue
    c = CLAIMS[pid]
    checks.append({
        "property_id": pid,
        "quick_cmd": "./bin/vcheck -p %s -tier quick" % pid,
        "thorough_cmd": "./bin/vcheck -p %s -tier thorough" % pid,
        "evidence_file": "/verif/evidence/%s.json" % pid,
        "replay_cmd_template": "./bin/vcheck -p %s -replay {path}" % pid,
        "engine": "vcheck",
        "level_claimed": {"category": "other", "text": c["text"], "design_ref": c["ref"]},
        "level_note": c["note"],
        "technique": c["technique"],
    })
na = [{"property_id": p, "reason": NOT_APPLICABLE.get(p, "static check for this property is not built yet in this commit (see DESIGN.md section 4 for the plan); nothing is claimed")} for p in ALL if p not in CLAIMS]
m = {
    "version": 1,
    "setup_cmd": "cd /verif && %s go build -o bin/vcheck ./cmd/vcheck" % ENV,
    "hooks": {
        "guard": "verif",
        "enable": "none needed: the analysis reads /repo's source (go/packages with -tags=verif); no instrumentation is compiled into the repository",
        "baseline_off_cmd": "cd /repo && %s go test -vet=off -count=1 -timeout 25m ./..." % ENV,
        "source_commits": [],
        "add_only": True,
    },
    "engines": [{"name": "vcheck", "path": "/verif/cmd/vcheck", "serves_properties": sorted(CLAIMS), "kind_free_text": "repository-specific static analyser (go/packages + go/types + go/ssa + VTA call graph + text/template/parse abstract expansion); decides structural necessary conditions of each property from source, never runs repository code"}],
    "checks": checks,
    "not_applicable": na,
    "notes": NOTES,
}
json.dump(m, open(os.path.join(V, "MANIFEST.json"), "w"), indent=1)
print("claimed", sorted(CLAIMS), "n/a", [x["property_id"] for x in na])
