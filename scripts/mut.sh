#!/bin/bash
# usage: mut.sh <prop[,prop]> <file> <python-regex> <replacement> [count]
# Applies one textual mutation to a scratch copy of /repo, checks that it still
# builds, runs the given property checks against the copy and deletes it.
# Self-test tool only: results never influence a verdict on /repo.
set -u
export GOFLAGS=-mod=mod GOPROXY=off GOSUMDB=off GOTOOLCHAIN=local
props=$1; file=$2; pat=$3; rep=$4; cnt=${5:-1}
V=$(cd "$(dirname "$0")/.." && pwd)
D=$(mktemp -d /tmp/vmut.XXXXXX)
trap 'rm -rf "$D"' EXIT
rsync -a --exclude .git /repo/ "$D/"
python3 - "$D/$file" "$pat" "$rep" "$cnt" <<'PY'
import re,sys
p,pat,rep,cnt=sys.argv[1:5]
s=open(p).read()
n=len(re.findall(pat,s,flags=re.S))
if n==0:
    print("MUTATION-NOT-APPLICABLE: pattern not found"); sys.exit(3)
s2=re.sub(pat,rep,s,count=int(cnt),flags=re.S)
open(p,'w').write(s2)
PY
[ $? -eq 0 ] || exit 3
(cd "$D" && go build ./... 2>&1 | head -5)
if [ "${PIPESTATUS[0]}" != 0 ]; then echo "MUTANT-DOES-NOT-BUILD"; fi
(cd "$D" && go vet ./$(dirname $file) >/dev/null 2>&1) || echo "(vet complains)"
rc=0
for p in ${props//,/ }; do
  mkdir -p "$D/.verif"; cp "$V/known_findings.txt" "$D/.verif/" 2>/dev/null
  "$V/bin/vcheck" -p $p -repo "$D" -verif "$D/.verif" > "$D/.out" 2>&1; r=$?
  grep -E "^  (VIOLATED|UNDECIDED)|^INFRA" "$D/.out" | sed "s#$D/##g" | cut -c1-400 | head -8
  echo "== $p exit=$r"
  [ $r -ne 0 ] && rc=1
done
exit $rc
