#!/bin/bash
# usage: mut_full.sh <file> <idx> — self-test, second stage of the mutation survey: does the full unedited suite pass on this mutant?
export GOFLAGS=-mod=mod GOPROXY=off GOSUMDB=off GOTOOLCHAIN=local
file=$1; idx=$2
V=$(cd "$(dirname "$0")/.." && pwd)
D=$(mktemp -d /tmp/vmutf.XXXXXX)
trap 'rm -rf "$D"' EXIT
rsync -a --exclude .git /repo/ "$D/"
"${MUTGEN:-$V/bin/mutgen}" -file "$D/$file" -apply $idx || { echo "$file $idx APPLY-FAIL"; exit 0; }
if (cd "$D" && timeout 1200 go test -vet=off -count=1 ./... > "$D/.test" 2>&1); then echo "$file $idx SUITE-PASS"; else echo "$file $idx SUITE-FAIL $(grep -m1 '^FAIL\|^--- FAIL' "$D/.test" | cut -c1-80)"; fi
