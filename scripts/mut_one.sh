#!/bin/bash
# usage: mut_one.sh <file> <idx> <outdir>  — self-test: one syntactic mutation (cmd/mutgen) on a scratch copy of /repo:
# build, tests of the mutated package, then all twenty checks; prints one result line.
# BUILD-FAIL / TEST-KILLED (package tests fail) / DETECTED <props> / SURVIVED (tests of the package pass and no check reports)
export GOFLAGS=-mod=mod GOPROXY=off GOSUMDB=off GOTOOLCHAIN=local
file=$1; idx=$2; out=$3
V=$(cd "$(dirname "$0")/.." && pwd)
D=$(mktemp -d /tmp/vmut.XXXXXX)
trap 'rm -rf "$D"' EXIT
rsync -a --exclude .git /repo/ "$D/"
desc=$("$V/bin/mutgen" -file "$D/$file" | awk -F'\t' -v i=$idx '$1==i {print $2" "$3" "$4}')
"$V/bin/mutgen" -file "$D/$file" -apply $idx || { echo "$file $idx APPLY-FAIL"; exit 0; }
pkg=./$(dirname $file)
(cd "$D" && go build ./... >/dev/null 2>&1) || { echo "$file $idx [$desc] BUILD-FAIL"; exit 0; }
(cd "$D" && go vet "$pkg" >/dev/null 2>&1) || true
if ! (cd "$D" && timeout 600 go test -vet=off -count=1 "$pkg" >/dev/null 2>&1); then echo "$file $idx [$desc] TEST-KILLED"; exit 0; fi
mkdir -p "$D/.verif"; cp "$V/known_findings.txt" "$D/.verif/"; cp -r "$V/testdata" "$D/.verif/"
"$V/bin/vcheck" -p all -repo "$D" -verif "$D/.verif" > "$D/.out" 2>&1
props=$(awk '/^PROP / { split($3,a,"="); if (a[2] != "0") printf "%s ", $2 }' "$D/.out")
if [ -n "$props" ]; then
  echo "$file $idx [$desc] DETECTED $props"
else
  (cd "$D" && git init -q . 2>/dev/null; cd "$D" && diff -u "/repo/$file" "$D/$file" > "$out/$(echo $file | tr / _).$idx.diff")
  echo "$file $idx [$desc] SURVIVED"
fi
