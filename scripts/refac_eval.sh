#!/bin/bash
# usage: refac_eval.sh <diff-file> [props]  — applies a behaviour-preserving refactoring to a scratch copy and runs checks (self-test: any alarm is a false alarm)
set -u
export GOFLAGS=-mod=mod GOPROXY=off GOSUMDB=off GOTOOLCHAIN=local
diff=$1; props=${2:-C01,C02,C03,C04,C05,C06,C07,C08,C09,C10,C11,C12,C13,C14,C15,C16,C17,C18,C19,C20}
V=$(cd "$(dirname "$0")/.." && pwd)
D=$(mktemp -d /tmp/vref.XXXXXX)
trap 'rm -rf "$D"' EXIT
rsync -a --exclude .git /repo/ "$D/"
(cd "$D" && git init -q . && git apply "$diff") || { echo "PATCH-FAILS $diff"; exit 3; }
(cd "$D" && go build ./... ) || { echo "DOES-NOT-BUILD $diff"; exit 3; }
mkdir -p "$D/.verif"; cp "$V/known_findings.txt" "$D/.verif/"; cp -r "$V/testdata" "$D/.verif/"
pids=()
for p in ${props//,/ }; do
  ( "${VCHECK:-$V/bin/vcheck}" -p $p -repo "$D" -verif "$D/.verif" > "$D/.out.$p" 2>&1; echo $? > "$D/.rc.$p" ) &
  pids+=($!)
  # at most 6 in parallel (memory)
  if [ ${#pids[@]} -ge 6 ]; then wait ${pids[0]}; pids=("${pids[@]:1}"); fi
done
wait
for p in ${props//,/ }; do
  r=$(cat "$D/.rc.$p")
  if [ "$r" != 0 ]; then
    echo "ALARM $p exit=$r on $(basename $(dirname $diff))/$(basename $diff)"
    grep -E "^  (VIOLATED|UNDECIDED)|^INFRA" "$D/.out.$p" | sed "s#$D/##g" | cut -c1-330 | head -6
  fi
done
echo "done $(basename $(dirname $diff))/$(basename $diff)"
