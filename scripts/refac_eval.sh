#!/bin/bash
# usage: refac_eval.sh <diff-file> [props]  — applies a behaviour-preserving refactoring to a scratch copy and runs checks (self-test: any alarm is a false alarm)
# The checks of all listed properties run in one process over one loaded program (vcheck -p a,b,c: self-test mode).
set -u
export GOFLAGS=-mod=mod GOPROXY=off GOSUMDB=off GOTOOLCHAIN=local
diff=$1; props=${2:-C01,C02,C03,C04,C05,C06,C07,C08,C09,C10,C11,C12,C13,C14,C15,C16,C17,C18,C19,C20}
V=$(cd "$(dirname "$0")/.." && pwd)
D=$(mktemp -d /tmp/vref.XXXXXX)
trap 'rm -rf "$D"' EXIT
rsync -a --exclude .git /repo/ "$D/"
(cd "$D" && git init -q . && git apply "$diff") || { echo "PATCH-FAILS $diff"; exit 3; }
(cd "$D" && go build ./... ) || { echo "DOES-NOT-BUILD $diff"; exit 3; }
mkdir -p "$D/.verif"; cp "$V/known_findings.txt" "$D/.verif/"; cp -r "$V/testdata" "$D/.verif/"
case "$props" in *,*) ;; *) props="$props," ;; esac
"${VCHECK:-$V/bin/vcheck}" -p "${props%,}"$( [ "${props%,}" = "${props}" ] || echo , ) -repo "$D" -verif "$D/.verif" > "$D/.out" 2>&1
awk -v name="$(basename $(dirname $diff))/$(basename $diff)" -v D="$D/" '
  /^  (VIOLATED|UNDECIDED)|^INFRA/ { if (n < 6) { gsub(D, ""); buf[n++] = substr($0, 1, 330) } next }
  /^PROP / { split($3, a, "="); if (a[2] != "0") { print "ALARM " $2 " exit=" a[2] " on " name; for (i = 0; i < n; i++) print buf[i] } n = 0; seen++ }
  END { if (seen == 0) print "ALARM ? no property result on " name }
' "$D/.out"
echo "done $(basename $(dirname $diff))/$(basename $diff)"
