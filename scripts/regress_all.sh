#!/bin/bash
# Self-test: every stored seed must be reported by its own property's check (except the documented
# limitations), and no stored behaviour-preserving refactoring may raise any alarm. Two refactorings at a time.
V=$(cd "$(dirname "$0")/.." && pwd)
out=${1:-/tmp/regress}
# the scratch builds share one private build cache, removed at the end (hundreds of variants fill the default cache with >100 GB)
export GOCACHE=/tmp/verif-gocache
"$V/scripts/seeded_all.sh" > "$out.seeds" 2>&1
ls "$V"/benign/*.diff | xargs -P 10 -I{} sh -c "$V/scripts/refac_eval.sh {} 2>&1 | cut -c1-300" > "$out.benign" 2>&1
echo FINISHED >> "$out.benign"
rm -rf /tmp/verif-gocache
