#!/bin/bash
# usage: seed_demo.sh <Cxx> [pkgdir-for-test-files] — runs the agent's demonstration on the changed worktree and on the original (stash), prints tails
export GOFLAGS=-mod=mod GOPROXY=off GOSUMDB=off GOTOOLCHAIN=local
id=$1; pkg=${2:-}
W=/tmp/wt-$id; S=/tmp/seed-$id/demo
run() {
  if [ -f $S/run.sh ]; then (cd $S && sh run.sh $W 2>&1 | tail -3)
  elif [ -f $S/main.go ] && [ -f $S/go.mod ]; then (cd $S && go run . 2>&1 | tail -3)
  else
    t=$(ls $S/*_test.go | head -1); cp $t $W/$pkg/; (cd $W && go test -race -vet=off -count=1 -run 'Test(Demo|C[0-9]+)' ./$pkg/ 2>&1 | tail -3); rm -f $W/$pkg/$(basename $t)
  fi
}
echo "== $id changed:"; run | cut -c1-200
git -C $W stash -q; echo "== $id original:"; run | cut -c1-200; git -C $W stash pop -q
git -C $W status --short
