#!/bin/bash
# usage: seed_demo.sh <Cxx> [pkgdir-for-test-files] — runs the agent's demonstration on the changed worktree and on the original (patch reversed), prints tails
export GOFLAGS=-mod=mod GOPROXY=off GOSUMDB=off GOTOOLCHAIN=local
id=$1; pkg=${2:-}
W=/tmp/wt-$id; S=/tmp/seed-$id/demo
run() {
  if ls $S/run*.sh >/dev/null 2>&1; then (cd $S && sh $(ls run*.sh | head -1) $W 2>&1 | tail -4)
  elif [ -f $S/main.go ] && [ -f $S/go.mod ]; then (cd $S && go run . 2>&1 | tail -3)
  elif [ -f $S/go.mod ]; then (cd $S && go test -count=1 ./... 2>&1 | tail -4)
  else
    t=$(ls $S/*_test.go | head -1); cp $t $W/$pkg/; (cd $W && go test -vet=off -count=1 -run 'Test(Demo|C[0-9]+)' ./$pkg/ 2>&1 | tail -3); rm -f $W/$pkg/$(basename $t)
  fi
}
echo "== $id changed:"; run | cut -c1-200
git -C $W diff > /tmp/seed-$id/flip.diff; git -C $W apply -R /tmp/seed-$id/flip.diff; echo "== $id original:"; run | cut -c1-200; git -C $W apply /tmp/seed-$id/flip.diff; rm -f /tmp/seed-$id/flip.diff
git -C $W status --short
