#!/bin/bash
# usage: seed_eval.sh <Cxx> [props-to-run]   (self-test tool, not part of any verdict)
# Applies /tmp/seed-<id>/patch.diff (or /verif/seeded/<id>/patch.diff) to /repo, runs the checks, reverts.
set -u
export GOFLAGS=-mod=mod GOPROXY=off GOSUMDB=off GOTOOLCHAIN=local
id=$1; props=${2:-$id}
V=$(cd "$(dirname "$0")/.." && pwd)
P=/tmp/seed-$id/patch.diff; [ -f "$P" ] || P=$V/seeded/$id/patch.diff
[ -z "$(git -C /repo status --porcelain)" ] || { echo "/repo not clean"; exit 3; }
git -C /repo apply "$P" || { echo "patch does not apply"; exit 3; }
trap 'git -C /repo checkout -- . ; git -C /repo status --porcelain' EXIT
(cd /repo && go build ./... ) || echo "DOES NOT BUILD"
mkdir -p /tmp/seedout-$id; cp "$V/known_findings.txt" /tmp/seedout-$id/; cp -r "$V/testdata" /tmp/seedout-$id/ 2>/dev/null
for p in ${props//,/ }; do
  "$V/bin/vcheck" -p $p -tier quick -verif /tmp/seedout-$id > /tmp/seedout-$id.$p.txt 2>&1; r=$?
  grep -E "^  (VIOLATED|UNDECIDED)|^INFRA" /tmp/seedout-$id.$p.txt | cut -c1-500 | head -10
  echo "== $id on $p exit=$r"
done
rm -rf /tmp/seedout-$id
