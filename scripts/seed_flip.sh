#!/bin/bash
# usage: seed_flip.sh <Cxx> <pkgdir> <test-file> <run-pattern> [extra go test flags] — copies a demo test into the seed's worktree, runs it on the changed and on the original tree, cleans up (self-test helper)
export GOFLAGS=-mod=mod GOPROXY=off GOSUMDB=off GOTOOLCHAIN=local
id=$1; pkg=$2; tf=$3; pat=$4; shift 4
W=/tmp/wt-$id
[ -d "$W" ] || { echo "no worktree $W"; exit 2; }
mkdir -p "$W/$pkg"; cp "$tf" "$W/$pkg/"
echo "== $id changed:"; (cd "$W" && timeout 600 go test -vet=off -count=1 "$@" -run "$pat" "./$pkg/" 2>&1 | tail -2)
git -C "$W" diff > "/tmp/$id.flip"; git -C "$W" apply -R "/tmp/$id.flip"
echo "== $id original:"; (cd "$W" && timeout 600 go test -vet=off -count=1 "$@" -run "$pat" "./$pkg/" 2>&1 | tail -1)
git -C "$W" apply "/tmp/$id.flip"; git -C "$W" clean -fdq; git -C "$W" status --short | head -3
