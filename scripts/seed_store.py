#!/usr/bin/env python3
# usage: seed_store.py <Cxx> <slot> '<json meta>'  — copies /tmp/seed-<id>/{patch.diff,README.md,demo} to /verif/seeded/<slot>/ and writes meta.json
import json, os, shutil, sys
sid, slot, meta = sys.argv[1], sys.argv[2], json.loads(sys.argv[3])
src = '/tmp/seed-%s' % sid
dst = '/verif/seeded/%s' % slot
os.makedirs(dst, exist_ok=True)
shutil.copy(src + '/patch.diff', dst + '/patch.diff')
if os.path.exists(src + '/README.md'):
    shutil.copy(src + '/README.md', dst + '/README.md')
if os.path.isdir(dst + '/demo'):
    shutil.rmtree(dst + '/demo')
shutil.copytree(src + '/demo', dst + '/demo', ignore=shutil.ignore_patterns('go.sum', '*.log'))
meta.setdefault('property', sid)
meta.setdefault('origin', 'fresh sub-agent given only the property text and a scratch worktree')
meta.setdefault('confirmed', 'rebuilt, full unedited suite re-run (exit 0), demonstration re-run on the changed tree (fails) and on the original tree (passes) by the main session')
json.dump(meta, open(dst + '/meta.json', 'w'), indent=1)
print('stored', dst)
