#!/bin/bash
# usage: seed_verify.sh <Cxx>  — confirms that the seeded change in /tmp/wt-<id> builds and passes the unedited suite
export GOFLAGS=-mod=mod GOPROXY=off GOSUMDB=off GOTOOLCHAIN=local
id=$1; W=/tmp/wt-$id
cd $W || exit 3
git status --porcelain | head -5
git diff > /tmp/seed-$id/patch.mine.diff
cmp -s /tmp/seed-$id/patch.mine.diff /tmp/seed-$id/patch.diff && echo "patch.diff matches worktree" || echo "PATCH DIFFERS FROM WORKTREE"
git diff --stat | tail -3
go build ./... || { echo BUILD-FAIL; exit 1; }
go test -vet=off -count=1 ./... > /tmp/seed-$id/verify-test.log 2>&1; echo "suite exit=$?"
grep -v "^ok\|no test files" /tmp/seed-$id/verify-test.log | head -10
