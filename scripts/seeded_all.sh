#!/bin/bash
# Runs every stored seeded change against a scratch copy of /repo and reports whether the check of its own property fires (self-test). Eight at a time.
export GOFLAGS=-mod=mod GOPROXY=off GOSUMDB=off GOTOOLCHAIN=local
V=$(cd "$(dirname "$0")/.." && pwd)
one() {
  d=$1; V=$2
  slot=$(basename $d); id=${slot:0:3}
  D=$(mktemp -d /tmp/vseed.XXXXXX)
  rsync -a --exclude .git /repo/ "$D/"
  if ! (cd "$D" && git init -q . && git apply "$d/patch.diff" 2>/dev/null); then
    if [ "$id" = C06 ] && [ "$slot" = C06 ]; then
      printf 'package goast\n\nimport "go/token"\n\n// IsReservedKeyword returns true if the given word is a reserved keyword.\nfunc IsReservedKeyword(n string) bool {\n\treturn token.IsKeyword(n)\n}\n' > "$D/internal/goast/reserved.go"
    else
      echo "$slot PATCH-DOES-NOT-APPLY"; rm -rf "$D"; return
    fi
  fi
  mkdir -p "$D/.verif"; cp "$V/known_findings.txt" "$D/.verif/"; cp -r "$V/testdata" "$D/.verif/"
  "${VCHECK:-$V/bin/vcheck}" -p $id -repo "$D" -verif "$D/.verif" > "$D/.out" 2>&1; r=$?
  echo "$slot exit=$r $(grep -cE '^  (VIOLATED|UNDECIDED)' "$D/.out") alarms: $(grep -E '^  (VIOLATED|UNDECIDED)' "$D/.out" | awk '{print $2":"$3}' | sort -u | head -4 | tr '\n' ' ')"
  rm -rf "$D"
}
export -f one
ls -d "$V"/seeded/C* | xargs -P 8 -I{} bash -c 'one {} '"$V" | sort
