// Package adapter is a positive example for the READER-ADAPTER rule: badReader
// retires its buffered bytes without looking at how many were copied (must be
// flagged); goodReader advances by the copy count (must not be flagged).
package adapter

import "io"

type badReader struct {
	peeked   [2]byte
	replayed bool
	r        io.Reader
}

func (pr *badReader) Read(p []byte) (int, error) {
	if pr.replayed {
		return pr.r.Read(p)
	}
	pr.replayed = true
	return copy(p, pr.peeked[:]), nil
}

type goodReader struct {
	peeked []byte
	r      io.Reader
}

func (pr *goodReader) Read(p []byte) (int, error) {
	if len(pr.peeked) == 0 {
		return pr.r.Read(p)
	}
	n := copy(p, pr.peeked)
	pr.peeked = pr.peeked[n:]
	return n, nil
}
