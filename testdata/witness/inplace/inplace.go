// Package inplace is a positive witness for rule NO-INPLACE: filterInPlace
// compacts its parameter's backing array, which the rule must recognise.
package inplace

func filterInPlace(items []int) []int {
	out := items[:0]
	for _, i := range items {
		if i%2 == 0 {
			out = append(out, i)
		}
	}
	return out
}

func filterCopy(items []int) []int {
	out := make([]int, 0, len(items))
	for _, i := range items {
		if i%2 == 0 {
			out = append(out, i)
		}
	}
	return out
}

var _ = filterInPlace
var _ = filterCopy
