// Package modname is a positive example for the MODULE-IDENTITY rule: walkByName
// remembers visited modules by their Name, which is the base name of the file
// and is shared by files of different directories (must be flagged); walkByPath
// uses ThriftPath, the absolute path that identifies a module (must not be).
package modname

type Module struct {
	Name       string
	ThriftPath string
	Includes   []*Module
}

func walkByName(m *Module, f func(*Module)) {
	seen := map[string]struct{}{}
	todo := []*Module{m}
	for len(todo) > 0 {
		x := todo[0]
		todo = todo[1:]
		if _, ok := seen[x.Name]; ok {
			continue
		}
		seen[x.Name] = struct{}{}
		f(x)
		todo = append(todo, x.Includes...)
	}
}

func walkByPath(m *Module, f func(*Module)) {
	seen := map[string]bool{}
	todo := []*Module{m}
	for len(todo) > 0 {
		x := todo[0]
		todo = todo[1:]
		if seen[x.ThriftPath] {
			continue
		}
		seen[x.ThriftPath] = true
		f(x)
		todo = append(todo, x.Includes...)
	}
}
