// Package mutexfields is a positive example for the MUTEX-FIELDS rule:
// badSet.has reads the map its add method writes without taking the mutex
// (must be flagged); goodSet takes it in both (must not be flagged), once with
// a deferred and once with an explicit unlock on every path.
package mutexfields

import "sync"

type badSet struct {
	lock sync.Mutex
	m    map[string]string
}

func (s *badSet) add(k, v string) {
	s.lock.Lock()
	defer s.lock.Unlock()
	s.m[k] = v
}

func (s *badSet) has(k string) bool {
	_, ok := s.m[k]
	return ok
}

type goodSet struct {
	sync.Mutex
	m map[string]string
	n int
}

func (s *goodSet) add(k, v string) {
	s.Lock()
	defer s.Unlock()
	s.put(k, v)
}

// put is only called with the lock held.
func (s *goodSet) put(k, v string) {
	s.m[k] = v
	s.n++
}

func (s *goodSet) has(k string) bool {
	s.Lock()
	if s.n == 0 {
		s.Unlock()
		return false
	}
	_, ok := s.m[k]
	s.Unlock()
	return ok
}
