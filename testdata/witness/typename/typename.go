// Package typename is a positive example for the TYPE-IDENTITY rule: sameByName
// decides that two type specifications are the same by comparing their names,
// which are local to the file that defines them (must be flagged); sameByIdentity
// compares the specifications themselves (must not be flagged); nameIs compares
// a name with a fixed string (must not be flagged).
package typename

type TypeSpec interface {
	ThriftName() string
	TypeCode() int
	Link(scope interface{}) (TypeSpec, error)
}

func sameByName(a, b TypeSpec) bool { return a.ThriftName() == b.ThriftName() }

func sameByIdentity(a, b TypeSpec) bool { return a == b }

func nameIs(a TypeSpec) bool { return a.ThriftName() == "string" }

func dedup(ts []TypeSpec) []TypeSpec {
	seen := map[string]bool{}
	var out []TypeSpec
	for _, t := range ts {
		if seen[t.ThriftName()] {
			continue
		}
		seen[t.ThriftName()] = true
		out = append(out, t)
	}
	return out
}
